// Package sched is the E2 explorer: stateless, deviation-bounded depth-first enumeration
// of the schedules of a harness body running on the cooperative scheduler
// (github.com/oxia-db/oxia/zzverif/vsched), sharded over worker processes.
package sched

import (
	"encoding/json"
	"fmt"
	"os"
	"os/exec"
	"runtime"
	"runtime/pprof"
	"sort"
	"strconv"
	"strings"
	"sync"
	"time"

	"github.com/oxia-db/oxia/zzverif/vsched"

	"verif/lib/ev"
)

type Scenario struct {
	Name string
	Cfg  vsched.Config
	// MaxDev is the deviation bound: every execution with at most MaxDev non-default
	// choices is run exactly once.
	MaxDev int
	Body   func(s *vsched.Sched)
	// DeadlockKey, if non-empty, makes a deadlock outcome a violation with that key
	// (harness bodies that expect parked server loops finish normally instead).
	DeadlockKey string
	// HorizonKey, if non-empty, makes an execution that reaches the step horizon (a thread
	// spinning for ever, so that the harness never gets to its oracle) a violation with that key.
	HorizonKey string
	// MaxExec caps the number of executions of this scenario in one process (0 = none).
	MaxExec int64
}

type Found struct {
	Key     string   `json:"key"`
	Msg     string   `json:"msg"`
	Choices []int    `json:"choices"`
	Cost    int      `json:"cost"`
	Stuck   []string `json:"stuck,omitempty"`
}

type Result struct {
	Scenario   string           `json:"scenario"`
	Executions int64            `json:"executions"`
	ByCost     map[int]int64    `json:"by_cost"`
	Outcomes   map[string]int64 `json:"outcomes"`
	MaxChoices int              `json:"max_choices"`
	MaxSteps   int              `json:"max_steps"`
	SumSteps   int64            `json:"sum_steps"`
	Distinct   map[string]int64 `json:"distinct_outcomes"`
	Found      []Found          `json:"found"`
	Flaky      int64            `json:"flaky"`
	Diverged   int64            `json:"diverged"`
	Cut        bool             `json:"cut"`
	MaxDev     int              `json:"max_dev"`
	Redundant  int64            `json:"redundant"`
	Horizons   [][]int          `json:"horizons,omitempty"`
}

func newResult(name string, dev int) *Result {
	return &Result{Scenario: name, ByCost: map[int]int64{}, Outcomes: map[string]int64{}, Distinct: map[string]int64{}, MaxDev: dev}
}

type explorer struct {
	sc       Scenario
	res      *Result
	deadline time.Time
	worker   int
	nworkers int
	shardDep int
	shardCtr int64
	stop     bool
}

func picks(cs []vsched.Choice) ([]int, []int) {
	p := make([]int, len(cs))
	n := make([]int, len(cs))
	for i, c := range cs {
		p[i] = c.Pick
		n[i] = c.N
	}
	return p, n
}

func failKeys(x vsched.ExecResult, sc Scenario) []vsched.Failure {
	fs := append([]vsched.Failure{}, x.Fails...)
	switch x.Outcome {
	case vsched.Panicked:
		first := x.Panic
		if i := strings.Index(first, "\n"); i >= 0 {
			first = first[:i]
		}
		fs = append(fs, vsched.Failure{Key: "panic", Msg: x.Panic})
		_ = first
	case vsched.Horizon:
		if sc.HorizonKey != "" {
			fs = append(fs, vsched.Failure{Key: sc.HorizonKey, Msg: "the execution never became quiescent within the step horizon (a thread keeps spinning)"})
		}
	case vsched.Deadlock:
		if sc.DeadlockKey != "" {
			fs = append(fs, vsched.Failure{Key: sc.DeadlockKey, Msg: "no thread can make progress: " + strings.Join(x.Stuck, "; ")})
		}
	}
	return fs
}

func sameKeys(a, b []vsched.Failure) bool {
	if len(a) != len(b) {
		return false
	}
	ka, kb := []string{}, []string{}
	for i := range a {
		ka = append(ka, a[i].Key)
		kb = append(kb, b[i].Key)
	}
	sort.Strings(ka)
	sort.Strings(kb)
	return strings.Join(ka, "|") == strings.Join(kb, "|")
}

func (e *explorer) run(prefix, prefixN []int) vsched.ExecResult {
	cfg := e.sc.Cfg
	return vsched.RunOne(&cfg, prefix, prefixN, e.sc.Body)
}

func (e *explorer) account(x vsched.ExecResult, cost int, prefix []int, counted bool) {
	r := e.res
	if !counted {
		r.Redundant++
		return
	}
	r.Executions++
	r.ByCost[cost]++
	r.Outcomes[x.Outcome.String()]++
	if len(x.Choices) > r.MaxChoices {
		r.MaxChoices = len(x.Choices)
	}
	if x.Steps > r.MaxSteps {
		r.MaxSteps = x.Steps
	}
	r.SumSteps += int64(x.Steps)
	if k, ok := x.Data.(string); ok && k != "" {
		if len(r.Distinct) < 5000 {
			r.Distinct[k]++
		} else if _, ok := r.Distinct[k]; ok {
			r.Distinct[k]++
		}
	}
	if x.Outcome == vsched.Diverged {
		if os.Getenv("VERIF_DEBUG_DIVERGE") != "" && r.Diverged < 3 {
			var picks []int
			for _, c := range x.Choices {
				picks = append(picks, c.Pick)
			}
			if len(picks) > 300 {
				picks = picks[:300]
			}
			fmt.Fprintf(os.Stderr, "DIVERGED %s: %v PICKS %v\n", e.sc.Name, x.Stuck, picks)
		}
		r.Diverged++
		return
	}
	if x.Outcome == vsched.Horizon && len(r.Horizons) < 2 {
		p, _ := picks(x.Choices)
		if len(p) > 400 {
			p = p[:400]
		}
		r.Horizons = append(r.Horizons, p)
	}
	fs := failKeys(x, e.sc)
	if len(fs) == 0 {
		return
	}
	// confirm: the same schedule must fail the same way twice more
	p, n := picks(x.Choices)
	for i := 0; i < 2; i++ {
		y := e.run(p, n)
		if y.Outcome == vsched.Diverged || !sameKeys(failKeys(y, e.sc), fs) {
			r.Flaky++
			return
		}
	}
	for _, f := range fs {
		if len(r.Found) < 200 {
			r.Found = append(r.Found, Found{Key: f.Key, Msg: f.Msg, Choices: p, Cost: cost, Stuck: x.Stuck})
		}
	}
}

func (e *explorer) explore(prefix, prefixN []int, cost, depth int, mine bool) {
	if e.stop {
		return
	}
	if !e.deadline.IsZero() && time.Now().After(e.deadline) {
		e.stop = true
		e.res.Cut = true
		return
	}
	if e.sc.MaxExec > 0 && e.res.Executions+e.res.Redundant >= e.sc.MaxExec {
		e.stop = true
		e.res.Cut = true
		return
	}
	// sharding: nodes above the shard depth are run by every worker (counted by worker 0),
	// nodes at the shard depth are dealt round-robin, below that they follow their ancestor.
	counted := mine
	if depth < e.shardDep {
		counted = e.worker == 0
	} else if depth == e.shardDep {
		mine = int(e.shardCtr%int64(e.nworkers)) == e.worker
		e.shardCtr++
		counted = mine
		if !mine {
			return
		}
	}
	x := e.run(prefix, prefixN)
	e.account(x, cost, prefix, counted)
	if x.Outcome == vsched.Diverged {
		return
	}
	if cost >= e.sc.MaxDev {
		return
	}
	p, n := picks(x.Choices)
	for i := len(prefix); i < len(x.Choices); i++ {
		c := x.Choices[i]
		nc := cost + 1
		if c.Free {
			nc = cost
		}
		if nc > e.sc.MaxDev {
			continue
		}
		for alt := 1; alt < c.N; alt++ {
			np := append(append(make([]int, 0, i+1), p[:i]...), alt)
			nn := append(make([]int, 0, i+1), n[:i+1]...)
			e.explore(np, nn, nc, depth+1, mine)
			if e.stop {
				return
			}
		}
	}
}

// ExploreLocal runs the scenario's share for (worker, nworkers) in this process.
func ExploreLocal(sc Scenario, worker, nworkers int, deadline time.Time) *Result {
	e := &explorer{sc: sc, res: newResult(sc.Name, sc.MaxDev), deadline: deadline, worker: worker, nworkers: nworkers}
	e.shardDep = 2
	if sc.MaxDev < 2 {
		e.shardDep = sc.MaxDev
	}
	if nworkers <= 1 {
		e.shardDep = -1
		e.nworkers = 1
	}
	e.explore(nil, nil, 0, 0, true)
	return e.res
}

func merge(a, b *Result) {
	a.Executions += b.Executions
	a.Redundant += b.Redundant
	for k, v := range b.ByCost {
		a.ByCost[k] += v
	}
	for k, v := range b.Outcomes {
		a.Outcomes[k] += v
	}
	for k, v := range b.Distinct {
		a.Distinct[k] += v
	}
	if b.MaxChoices > a.MaxChoices {
		a.MaxChoices = b.MaxChoices
	}
	if b.MaxSteps > a.MaxSteps {
		a.MaxSteps = b.MaxSteps
	}
	a.SumSteps += b.SumSteps
	a.Found = append(a.Found, b.Found...)
	if len(a.Horizons) < 2 {
		a.Horizons = append(a.Horizons, b.Horizons...)
	}
	a.Flaky += b.Flaky
	a.Diverged += b.Diverged
	a.Cut = a.Cut || b.Cut
}

// Suite is what a harness binary hands to Main.
type Suite struct {
	Property  string
	Scenarios func(tier string) []Scenario
	Budget    func(tier string) time.Duration
	Rule      string
	Assume    []string
	// Stage2: merge this run's evidence into the file written by the first-stage binary
	Stage2 bool
	// Level overrides the evidence level (default "exploration")
	Level string
}

// Main implements the whole protocol of an E2 harness binary: master (spawns workers,
// merges, writes evidence), worker (explores its shard, prints JSON), replay.
func Main(su Suite, replayPath string) int {
	tier := ev.Tier()
	scs := su.Scenarios(tier)
	if only := os.Getenv("VERIF_ONLY"); only != "" {
		// debugging aid: restrict the run to the scenarios whose name contains the given text
		var keep []Scenario
		for _, sc := range scs {
			if strings.Contains(sc.Name, only) {
				keep = append(keep, sc)
			}
		}
		scs = keep
	}
	if replayPath != "" {
		return replay(su, scs, replayPath)
	}
	if w := os.Getenv("VERIF_WORKER"); w != "" {
		var wi, nw int
		fmt.Sscanf(w, "%d/%d", &wi, &nw)
		dl, _ := strconv.ParseInt(os.Getenv("VERIF_DEADLINE"), 10, 64)
		if pf := os.Getenv("VERIF_PPROF"); pf != "" {
			f, _ := os.Create(pf)
			_ = pprof.StartCPUProfile(f)
			defer pprof.StopCPUProfile()
		}
		var out []*Result
		end := time.Unix(dl, 0)
		for i, sc := range scs {
			// split the remaining budget evenly over the scenarios still to run
			left := time.Until(end) / time.Duration(len(scs)-i)
			out = append(out, ExploreLocal(sc, wi, nw, time.Now().Add(left)))
		}
		b, _ := json.Marshal(out)
		_ = os.WriteFile(os.Getenv("VERIF_WORKER_OUT"), b, 0o644)
		if os.Getenv("VERIF_STATS") != "" {
			fmt.Fprintf(os.Stderr, "phases: run=%v teardown=%v hooks=%v\n", vsched.StatRun, vsched.StatTear, vsched.StatHooks)
			var ms runtime.MemStats
			runtime.ReadMemStats(&ms)
			fmt.Fprintf(os.Stderr, "mem: heapAlloc=%dMB heapSys=%dMB sys=%dMB goroutines=%d\n", ms.HeapAlloc>>20, ms.HeapSys>>20, ms.Sys>>20, runtime.NumGoroutine())
		}
		return 0
	}
	lvl := "exploration"
	if su.Level != "" {
		lvl = su.Level
	}
	run := ev.NewRun(su.Property, lvl)
	run.MergeExisting = su.Stage2
	nw := runtime.NumCPU()
	if v := os.Getenv("VERIF_WORKERS"); v != "" {
		nw, _ = strconv.Atoi(v)
	}
	deadline := time.Now().Add(su.Budget(tier))
	scratch := ev.Scratch(strings.ToLower(su.Property) + "-w")
	defer os.RemoveAll(scratch)
	results := make([][]*Result, nw)
	var wg sync.WaitGroup
	workerFailed := false
	var mu sync.Mutex
	for i := 0; i < nw; i++ {
		wg.Add(1)
		go func(i int) {
			defer wg.Done()
			outf := fmt.Sprintf("%s/w%d.json", scratch, i)
			cmd := exec.Command(os.Args[0])
			cmd.Env = append(os.Environ(), fmt.Sprintf("VERIF_WORKER=%d/%d", i, nw), "VERIF_WORKER_OUT="+outf,
				fmt.Sprintf("VERIF_DEADLINE=%d", deadline.Unix()), "GOMAXPROCS=1", "GOGC=200", "GOMEMLIMIT=900MiB", "VERIF_SCRATCH="+scratch)
			cmd.Stderr = os.Stderr
			// watchdog: workers stop by themselves at the deadline; one that is still there five
			// minutes later has a thread blocked outside the scheduler (infrastructure, not a verdict)
			watchdog := time.AfterFunc(time.Until(deadline)+5*time.Minute, func() {
				if cmd.Process != nil {
					fmt.Fprintf(os.Stderr, "worker %d still running 5 minutes after the deadline: killed\n", i)
					_ = cmd.Process.Kill()
				}
			})
			err := cmd.Run()
			watchdog.Stop()
			if err != nil {
				mu.Lock()
				workerFailed = true
				fmt.Fprintf(os.Stderr, "worker %d failed: %v\n", i, err)
				mu.Unlock()
				return
			}
			b, err := os.ReadFile(outf)
			if err != nil {
				mu.Lock()
				workerFailed = true
				mu.Unlock()
				return
			}
			var rs []*Result
			if json.Unmarshal(b, &rs) == nil {
				results[i] = rs
			}
		}(i)
	}
	wg.Wait()
	if workerFailed {
		fmt.Fprintln(os.Stderr, "a worker process failed (infrastructure)")
		return 2
	}
	total := map[string]*Result{}
	var order []string
	for _, rs := range results {
		for _, r := range rs {
			if t, ok := total[r.Scenario]; ok {
				merge(t, r)
			} else {
				total[r.Scenario] = r
				order = append(order, r.Scenario)
			}
		}
	}
	var nontrivial int64
	distinctOutcomes := 0
	for _, name := range order {
		r := total[name]
		run.Add("evaluations", r.Executions)
		run.Add("redundant_prefix_executions", r.Redundant)
		run.Add("flaky_unconfirmed", r.Flaky)
		run.Add("diverged", r.Diverged)
		for c, n := range r.ByCost {
			if c > 0 {
				nontrivial += n
			}
		}
		distinctOutcomes += len(r.Distinct)
		if r.Cut {
			run.NotExhaustive(fmt.Sprintf("%s: deadline/cap reached before all schedules with <=%d deviations were run", name, r.MaxDev))
		}
		if r.Diverged > 0 {
			run.NotExhaustive(fmt.Sprintf("%s: %d replayed prefixes diverged (nondeterminism); those subtrees were not explored", name, r.Diverged))
		}
		var outs []string
		for k := range r.Distinct {
			outs = append(outs, k)
		}
		sort.Strings(outs)
		if len(outs) > 6 {
			outs = outs[:6]
		}
		run.Note(fmt.Sprintf("%s: max_dev=%d executions=%d by_cost=%v outcomes=%v max_choice_points=%d max_steps=%d avg_steps=%d distinct_outcomes=%d",
			name, r.MaxDev, r.Executions, r.ByCost, r.Outcomes, r.MaxChoices, r.MaxSteps, r.SumSteps/max64(1, r.Executions), len(r.Distinct)))
		run.Sample(map[string]any{"scenario": name, "max_deviations": r.MaxDev, "example_outcomes": outs})
		if len(r.Horizons) > 0 {
			run.NotExhaustive(fmt.Sprintf("%s: %d executions reached the step horizon before finishing (not evaluated by the end-of-run oracle)", name, r.Outcomes["horizon"]))
			_ = os.MkdirAll(ev.Root+"/replays", 0o755)
			b, _ := json.Marshal(map[string]any{"first": map[string]any{"key": "horizon", "replay": map[string]any{"scenario": name, "choices": r.Horizons[0]}}})
			_ = os.WriteFile(fmt.Sprintf("%s/replays/%s-horizon-%s.json", ev.Root, su.Property, name), b, 0o644)
		}
		sort.SliceStable(r.Found, func(i, j int) bool { return r.Found[i].Cost < r.Found[j].Cost })
		for _, f := range r.Found {
			run.Violate(ev.Violation{Key: f.Key, Harness: name, Message: f.Msg,
				Replay: map[string]any{"scenario": name, "choices": f.Choices, "deviations": f.Cost, "stuck": f.Stuck}})
		}
	}
	run.DistinctN(nontrivial)
	run.Coverage["distinct_outcomes"] = distinctOutcomes
	run.Coverage["scenarios"] = len(order)
	run.Coverage["workers"] = nw
	run.Assume = su.Assume
	return run.Finish(su.Rule)
}

func max64(a, b int64) int64 {
	if a > b {
		return a
	}
	return b
}

func replay(su Suite, scs []Scenario, path string) int {
	var doc struct {
		First struct {
			Key    string `json:"key"`
			Replay struct {
				Scenario string `json:"scenario"`
				Choices  []int  `json:"choices"`
			} `json:"replay"`
		} `json:"first"`
	}
	if err := ev.ReadJSON(path, &doc); err != nil {
		fmt.Println("cannot read replay:", err)
		return 2
	}
	for _, sc := range scs {
		if sc.Name != doc.First.Replay.Scenario {
			continue
		}
		cfg := sc.Cfg
		cfg.Trace = true
		x := vsched.RunOne(&cfg, doc.First.Replay.Choices, nil, sc.Body)
		if os.Getenv("VERIF_DEBUG_TWICE") != "" {
			// determinism probe: the same schedule a second time in the same process must give the same trace
			y := vsched.RunOne(&cfg, doc.First.Replay.Choices, nil, sc.Body)
			n := len(x.Trace)
			if len(y.Trace) < n {
				n = len(y.Trace)
			}
			d := -1
			for i := 0; i < n; i++ {
				if x.Trace[i] != y.Trace[i] {
					d = i
					break
				}
			}
			fmt.Printf("TWICE: lengths %d / %d, choices %d / %d, first difference at trace line %d\n", len(x.Trace), len(y.Trace), len(x.Choices), len(y.Choices), d)
			for i := range x.Choices {
				if i < len(y.Choices) && (x.Choices[i].N != y.Choices[i].N || x.Choices[i].Kind != y.Choices[i].Kind) {
					fmt.Printf("  choice %d: N %d / %d kind %v / %v\n", i, x.Choices[i].N, y.Choices[i].N, x.Choices[i].Kind, y.Choices[i].Kind)
					break
				}
			}
			if len(x.Choices) > 272 {
				fmt.Printf("  choice 272: N=%d kind=%v ; choice 271: N=%d kind=%v\n", x.Choices[272].N, x.Choices[272].Kind, x.Choices[271].N, x.Choices[271].Kind)
			}
			if d >= 0 {
				for i := d - 6; i < d+6 && i < n; i++ {
					if i >= 0 {
						fmt.Printf("  [%d] A: %s\n  [%d] B: %s\n", i, x.Trace[i], i, y.Trace[i])
					}
				}
			}
			return 0
		}
		for _, l := range x.Trace {
			fmt.Println("  ", l)
		}
		fs := failKeys(x, sc)
		fmt.Printf("outcome=%s steps=%d choices=%d\n", x.Outcome, x.Steps, len(x.Choices))
		if len(fs) > 0 {
			fmt.Printf("VIOLATION property=%s replay=%s\n", su.Property, path)
			for _, f := range fs {
				fmt.Printf("  %s: %s\n", f.Key, f.Msg)
			}
			return 1
		}
		fmt.Println("replay passed")
		return 0
	}
	fmt.Println("scenario not found:", doc.First.Replay.Scenario)
	return 3
}
