// Package ev writes evidence files, replay artefacts and handles the
// VIOLATION / KNOWN-FINDING protocol shared by all checks.
package ev

import (
	"bufio"
	"encoding/json"
	"fmt"
	"os"
	"path/filepath"
	"sort"
	"strconv"
	"strings"
	"sync"
	"time"
)

// Root is the machinery directory (VERIF_ROOT is set by ./check; /verif by default).
var Root = func() string {
	if r := os.Getenv("VERIF_ROOT"); r != "" {
		return r
	}
	return "/verif"
}()

// Violation is one property violation found by a check.
type Violation struct {
	// Key classifies the violation for the known-findings file: a stable string
	// naming the failing call site / input class (never a bare property id).
	Key     string `json:"key"`
	Harness string `json:"harness"`
	Message string `json:"message"`
	// Replay is whatever the harness needs to reproduce it (op list, schedule…).
	Replay any `json:"replay"`
}

type Finding struct {
	Property string `json:"property"`
	Status   string `json:"status"` // "known" | "fixed"
	Key      string `json:"key"`
	Commit   string `json:"commit,omitempty"`
	What     string `json:"what"`
}

// Run collects what one check invocation covered.
type Run struct {
	mu         sync.Mutex
	Property   string
	Level      string
	Tier       string
	Seed       int64
	start      time.Time
	Coverage   map[string]any
	Assume     []string
	violations []Violation
	samples    []any
	counters   map[string]int64
	distinct   map[string]struct{}
	exhaustive bool
	notes      []string
	extraDist  int64
	// MergeExisting: this binary is the second stage of a two-stage check; its coverage is
	// merged into the evidence file the first stage has just written.
	MergeExisting bool
}

// DistinctN adds n distinct non-trivial cases counted elsewhere (e.g. canonical states).
func (r *Run) DistinctN(n int64) {
	r.mu.Lock()
	r.extraDist += n
	r.mu.Unlock()
}

func ReadJSON(path string, v any) error {
	b, err := os.ReadFile(path)
	if err != nil {
		return err
	}
	return json.Unmarshal(b, v)
}

func Tier() string {
	t := os.Getenv("VERIF_TIER")
	if t != "thorough" {
		t = "quick"
	}
	return t
}

func Seed() int64 {
	s, _ := strconv.ParseInt(os.Getenv("VERIF_SEED"), 10, 64)
	return s
}

func NewRun(property, level string) *Run {
	return &Run{Property: property, Level: level, Tier: Tier(), Seed: Seed(), start: time.Now(),
		Coverage: map[string]any{}, counters: map[string]int64{}, distinct: map[string]struct{}{}, exhaustive: true}
}

func (r *Run) Add(counter string, n int64) {
	r.mu.Lock()
	r.counters[counter] += n
	r.mu.Unlock()
}

func (r *Run) Get(counter string) int64 {
	r.mu.Lock()
	defer r.mu.Unlock()
	return r.counters[counter]
}

// Distinct records one observed non-trivial outcome/case key.
func (r *Run) Distinct(key string) {
	r.mu.Lock()
	r.distinct[key] = struct{}{}
	r.mu.Unlock()
}

func (r *Run) NDistinct() int {
	r.mu.Lock()
	defer r.mu.Unlock()
	return len(r.distinct)
}

func (r *Run) Sample(s any) {
	r.mu.Lock()
	if len(r.samples) < 12 {
		r.samples = append(r.samples, s)
	}
	r.mu.Unlock()
}

func (r *Run) NotExhaustive(why string) {
	r.mu.Lock()
	r.exhaustive = false
	r.notes = append(r.notes, why)
	r.mu.Unlock()
}

func (r *Run) Note(s string) {
	r.mu.Lock()
	r.notes = append(r.notes, s)
	r.mu.Unlock()
}

func (r *Run) Violate(v Violation) {
	r.mu.Lock()
	r.violations = append(r.violations, v)
	r.mu.Unlock()
}

func (r *Run) NViolations() int {
	r.mu.Lock()
	defer r.mu.Unlock()
	return len(r.violations)
}

func LoadFindings() []Finding {
	var out []Finding
	files, _ := filepath.Glob(filepath.Join(Root, "findings", "*.jsonl"))
	files = append([]string{filepath.Join(Root, "known_findings.jsonl")}, files...)
	for _, fn := range files {
		out = append(out, loadFindingsFile(fn)...)
	}
	return out
}

func loadFindingsFile(fn string) []Finding {
	f, err := os.Open(fn)
	if err != nil {
		return nil
	}
	defer f.Close()
	var out []Finding
	sc := bufio.NewScanner(f)
	sc.Buffer(make([]byte, 1<<20), 1<<20)
	for sc.Scan() {
		line := strings.TrimSpace(sc.Text())
		if line == "" || strings.HasPrefix(line, "#") {
			continue
		}
		var fd Finding
		if json.Unmarshal([]byte(line), &fd) == nil {
			out = append(out, fd)
		}
	}
	return out
}

// Finish writes the evidence file, prints the protocol lines and returns the
// process exit code.
func (r *Run) Finish(rule string) int {
	r.mu.Lock()
	defer r.mu.Unlock()
	known := map[string]Finding{}
	for _, f := range LoadFindings() {
		if f.Property == r.Property && f.Status == "known" {
			known[f.Key] = f
		}
	}
	// group violations by key; keep first of each
	byKey := map[string][]Violation{}
	var keys []string
	for _, v := range r.violations {
		if _, ok := byKey[v.Key]; !ok {
			keys = append(keys, v.Key)
		}
		byKey[v.Key] = append(byKey[v.Key], v)
	}
	sort.Strings(keys)
	exit := 0
	nUnknown := 0
	for _, k := range keys {
		vs := byKey[k]
		if f, ok := known[k]; ok {
			fmt.Printf("KNOWN-FINDING: property=%s key=%s %s (%d occurrence(s) this run)\n", r.Property, k, f.What, len(vs))
			continue
		}
		nUnknown += len(vs)
		path := filepath.Join(Root, "replays", fmt.Sprintf("%s-%s.json", r.Property, sanitize(k)))
		_ = os.MkdirAll(filepath.Dir(path), 0o755)
		b, _ := json.MarshalIndent(map[string]any{"property": r.Property, "first": vs[0], "occurrences": len(vs)}, "", " ")
		_ = os.WriteFile(path, b, 0o644)
		fmt.Printf("VIOLATION property=%s replay=%s\n", r.Property, path)
		fmt.Printf("  key=%s harness=%s: %s\n", k, vs[0].Harness, vs[0].Message)
		exit = 1
	}
	cov := r.Coverage
	for k, v := range r.counters {
		cov[k] = v
	}
	if _, ok := cov["evaluations"]; !ok {
		cov["evaluations"] = r.counters["evaluations"]
	}
	cov["distinct_nontrivial"] = int64(len(r.distinct)) + r.extraDist
	cov["rule"] = rule
	if len(r.samples) == 0 {
		r.samples = append(r.samples, "no sample recorded")
	}
	cov["samples"] = r.samples
	cov["exhaustive"] = r.exhaustive
	if len(r.notes) > 0 {
		cov["notes"] = r.notes
	}
	cov["known_finding_keys_seen"] = func() []string {
		var o []string
		for _, k := range keys {
			if _, ok := known[k]; ok {
				o = append(o, k)
			}
		}
		return o
	}()
	evd := map[string]any{
		"property_id": r.Property,
		"tier":        r.Tier,
		"seed":        r.Seed,
		"level":       r.Level,
		"coverage":    cov,
		"assumptions": r.Assume,
		"wall_s":      time.Since(r.start).Seconds(),
		"violations":  nUnknown,
	}
	if r.Assume == nil {
		evd["assumptions"] = []string{}
	}
	if r.MergeExisting {
		evd = mergeEvidence(filepath.Join(Root, "evidence", r.Property+".json"), evd)
	}
	b, _ := json.MarshalIndent(evd, "", " ")
	_ = os.MkdirAll(filepath.Join(Root, "evidence"), 0o755)
	if err := os.WriteFile(filepath.Join(Root, "evidence", r.Property+".json"), b, 0o644); err != nil {
		fmt.Fprintln(os.Stderr, "cannot write evidence:", err)
		return 2
	}
	fmt.Printf("%s tier=%s level=%s wall=%.1fs exhaustive=%v distinct=%d", r.Property, r.Tier, r.Level, time.Since(r.start).Seconds(), r.exhaustive, int64(len(r.distinct))+r.extraDist)
	var cs []string
	for k := range r.counters {
		cs = append(cs, k)
	}
	sort.Strings(cs)
	for _, k := range cs {
		fmt.Printf(" %s=%d", k, r.counters[k])
	}
	fmt.Println()
	return exit
}

func sanitize(s string) string {
	var b strings.Builder
	for _, c := range s {
		if c >= 'a' && c <= 'z' || c >= 'A' && c <= 'Z' || c >= '0' && c <= '9' || c == '-' || c == '_' || c == '.' {
			b.WriteRune(c)
		} else {
			b.WriteByte('_')
		}
	}
	if b.Len() > 80 {
		return b.String()[:80]
	}
	return b.String()
}

// Scratch returns a fresh scratch directory on tmpfs for this process.
func Scratch(name string) string {
	base := "/dev/shm"
	if _, err := os.Stat(base); err != nil {
		base = os.TempDir()
	}
	d, err := os.MkdirTemp(base, "verif-"+name+"-")
	if err != nil {
		panic(err)
	}
	return d
}

// mergeEvidence folds the second stage's evidence into the first stage's file: integer
// counters are summed, samples/notes concatenated, exhaustive and-ed; the second stage's
// own coverage is also kept verbatim under "stage2".
func mergeEvidence(path string, second map[string]any) map[string]any {
	var first map[string]any
	if err := ReadJSON(path, &first); err != nil || first == nil {
		return second
	}
	fc, _ := first["coverage"].(map[string]any)
	sc, _ := second["coverage"].(map[string]any)
	if fc == nil || sc == nil {
		return second
	}
	num := func(v any) (float64, bool) {
		switch x := v.(type) {
		case float64:
			return x, true
		case int64:
			return float64(x), true
		case int:
			return float64(x), true
		}
		return 0, false
	}
	for k, v := range sc {
		switch k {
		case "samples", "notes":
			a, _ := fc[k].([]any)
			b, _ := v.([]any)
			if bs, ok := v.([]string); ok {
				for _, x := range bs {
					b = append(b, x)
				}
			}
			fc[k] = append(a, b...)
		case "exhaustive":
			x, _ := fc[k].(bool)
			y, _ := v.(bool)
			fc[k] = x && y
		case "rule":
			fc[k] = fmt.Sprint(fc[k]) + " || stage 2: " + fmt.Sprint(v)
		default:
			if nv, ok := num(v); ok {
				if ov, ok2 := num(fc[k]); ok2 {
					fc[k] = int64(ov + nv)
				} else if _, exists := fc[k]; !exists {
					fc[k] = v
				}
			} else if _, exists := fc[k]; !exists {
				fc[k] = v
			}
		}
	}
	fc["stage2"] = sc
	first["coverage"] = fc
	if a, ok := num(first["wall_s"]); ok {
		if b, ok := num(second["wall_s"]); ok {
			first["wall_s"] = a + b
		}
	}
	if a, ok := num(first["violations"]); ok {
		if b, ok := num(second["violations"]); ok {
			first["violations"] = int64(a + b)
		}
	}
	if as, ok := first["assumptions"].([]any); ok {
		if bs, ok := second["assumptions"].([]string); ok {
			for _, x := range bs {
				as = append(as, x)
			}
			first["assumptions"] = as
		}
	}
	return first
}
