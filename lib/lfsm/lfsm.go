// Package lfsm model-checks the leader controller against *checking followers*: scripted peers that
// keep a log and verify every message the leader sends them (truncation requests, appends, snapshot
// transfers) the way a correct follower's state would demand. From a preloaded start state (a log
// spanning two terms, fully applied) every sequence of events up to a depth is replayed from
// scratch on a real leaderController (real WAL, real Pebble on a real directory): a new term, an
// election with one of several ensemble shapes (followers level with the leader, one entry
// behind, empty, at the end of an older term, or holding a longer uncommitted tail of an older
// term), a client put, restart, crash. After every event: each attached follower holds exactly the
// leader's log (same term and payload at every offset: C03), no follower was sent an entry that
// does not continue its log or a truncation to an entry it does not hold, the election completes
// with a quorum and not before it (C02), acknowledged writes are readable (C01), and the
// leader's database is the fold of its log (C07).
package lfsm

import (
	"context"
	"encoding/json"
	"flag"
	"fmt"
	"io"
	"os"
	"os/exec"
	"path/filepath"
	"sort"
	"strings"
	"sync"
	"time"

	time2 "github.com/oxia-db/oxia/common/time"
	"github.com/oxia-db/oxia/proto"
	"github.com/oxia-db/oxia/server"
	"github.com/oxia-db/oxia/server/kv"
	"github.com/oxia-db/oxia/server/wal"
	"github.com/oxia-db/oxia/zzverif/vsched"

	"verif/lib/ev"
	"verif/lib/oxc"
	"verif/lib/oxh"
	"verif/lib/sched"
)

// follower shapes at election time, relative to the candidate's log
const (
	shEqual   = iota // same log
	shBehind1        // one entry short
	shEmpty          // nothing (restored from a snapshot when the leader has committed data)
	shOldTerm        // ends where the older term ends in the leader's log
	shDiverge        // ends two (never committed) entries beyond the end of the older term
	shMute           // level with the leader but does not answer replication (down)
	shForeign        // holds, where this node's once-unreplicated entry stands, the entry of the leader of a term this node sat out
)

var shapeNames = []string{"level", "one-behind", "empty", "end-of-older-term", "longer-tail-of-older-term", "down", "entry-of-a-skipped-term"}

type election struct{ a, b int }

var elections = []election{{shEqual, shEqual}, {shEqual, shBehind1}, {shBehind1, shDiverge}, {shDiverge, shDiverge}, {shEmpty, shEqual},
	{shOldTerm, shDiverge}, {shEmpty, shDiverge}, {shDiverge, shMute}, {shBehind1, shMute}, {shEqual, shForeign}}

const (
	opNewTerm = iota
	opPut
	opRestart
	opCrash
	opPutNoQuorum   // both followers stop answering, then a client put: appended on the leader only
	opElectNoQuorum // BecomeLeader while no follower answers: it must not complete, and must not apply the uncommitted tail
	opElect0        // + index into elections
)

func nOps() int { return opElect0 + len(elections) }

func opName(op int) string {
	switch op {
	case opNewTerm:
		return "NewTerm(+1)"
	case opPut:
		return "Put"
	case opRestart:
		return "Restart"
	case opCrash:
		return "Crash"
	case opPutNoQuorum:
		return "Put(no follower answers)"
	case opElectNoQuorum:
		return "BecomeLeader(no follower answers)"
	}
	e := elections[op-opElect0]
	return fmt.Sprintf("BecomeLeader(f1 %s, f2 %s)", shapeNames[e.a], shapeNames[e.b])
}

type fail struct {
	Key string `json:"key"`
	Msg string `json:"msg"`
}

type outcome struct {
	Applicable bool   `json:"applicable"`
	Fails      []fail `json:"fails"`
	Sig        string `json:"sig"`
}

const ns, shard = "ns", int64(1)

// cfol is a checking follower.
type cfol struct {
	n     *node
	name  string
	base  int64 // offset of log[0]
	log   []*proto.LogEntry
	mute  bool
	term  int64 // the leader term it has been fenced for
	snaps int
	// foreign: offset at which it holds the entry of a term the leader sat out (-1: none)
	foreign int64
}

func (f *cfol) head() *proto.EntryId {
	if len(f.log) == 0 {
		if f.base > 0 {
			return &proto.EntryId{Term: f.term, Offset: f.base - 1} // restored from a snapshot
		}
		return &proto.EntryId{Term: -1, Offset: -1}
	}
	e := f.log[len(f.log)-1]
	return &proto.EntryId{Term: e.Term, Offset: e.Offset}
}

func (f *cfol) at(off int64) *proto.LogEntry {
	i := off - f.base
	if i < 0 || i >= int64(len(f.log)) {
		return nil
	}
	return f.log[i]
}

func (f *cfol) Truncate(req *proto.TruncateRequest) (*proto.TruncateResponse, error) {
	if f.mute {
		return nil, oxc.ErrUnavailable
	}
	if req.Term != f.term {
		f.n.failf("truncate-with-wrong-term", "%s fenced for term %d received Truncate(term %d)", f.name, f.term, req.Term)
	}
	h := req.HeadEntryId
	e := f.at(h.Offset)
	if h.Offset >= 0 && (e == nil || e.Term != h.Term) {
		held := "nothing"
		if e != nil {
			held = fmt.Sprintf("an entry of term %d", e.Term)
		}
		key := "truncate-to-entry-follower-does-not-hold"
		if f.foreign >= 0 && h.Offset == f.foreign {
			key += ":entry-of-a-term-the-leader-sat-out"
			f.n.foreignHit = true
		}
		f.n.failf(key, "%s (head %v) is told to truncate to (term %d, offset %d) where it holds %s", f.name, f.head(), h.Term, h.Offset, held)
		return nil, fmt.Errorf("cannot truncate")
	}
	if h.Offset < f.base-1 {
		return nil, fmt.Errorf("cannot truncate below the snapshot")
	}
	f.log = f.log[:h.Offset-f.base+1]
	return &proto.TruncateResponse{HeadEntryId: h}, nil
}

func (f *cfol) Replicate(stream proto.OxiaLogReplication_ReplicateServer) error {
	if f.mute {
		return oxc.ErrUnavailable
	}
	for {
		a, err := stream.Recv()
		if err != nil {
			return err
		}
		if a.Term != f.term {
			f.n.failf("append-with-wrong-term", "%s fenced for term %d received an append of term %d", f.name, f.term, a.Term)
			return fmt.Errorf("invalid term")
		}
		e := a.Entry
		last := f.base + int64(len(f.log)) - 1
		switch {
		case e.Offset <= last:
			if cur := f.at(e.Offset); cur != nil && (cur.Term != e.Term || string(cur.Value) != string(e.Value)) {
				f.n.failf("resent-entry-differs", "%s holds (term %d) at offset %d, the leader re-sends (term %d) with a different content: the follower was not truncated", f.name, cur.Term, e.Offset, e.Term)
			}
		case e.Offset == last+1:
			f.log = append(f.log, e.CloneVT())
		default:
			f.n.failf("append-gap", "%s ends at offset %d, the leader sends offset %d: entries in between were never sent", f.name, last, e.Offset)
			return fmt.Errorf("gap")
		}
		if err := stream.Send(&proto.Ack{Offset: e.Offset}); err != nil {
			return err
		}
	}
}

func (f *cfol) SendSnapshot(stream proto.OxiaLogReplication_SendSnapshotServer) error {
	if f.mute {
		return oxc.ErrUnavailable
	}
	f.snaps++
	dir := filepath.Join(f.n.dir, fmt.Sprintf("%s-snap-%d-%d", f.name, f.n.gen, f.snaps))
	pf, err := kv.NewPebbleKVFactory(&kv.FactoryOptions{DataDir: dir, CacheSizeMB: 1})
	if err != nil {
		return err
	}
	defer pf.Close()
	loader, err := pf.NewSnapshotLoader(ns, shard)
	if err != nil {
		return err
	}
	for {
		c, err := stream.Recv()
		if err == io.EOF || c == nil {
			break
		}
		if err != nil {
			_ = loader.Close()
			return err
		}
		if c.Term != f.term {
			f.n.failf("snapshot-with-wrong-term", "%s fenced for term %d received a snapshot chunk of term %d", f.name, f.term, c.Term)
		}
		if err := loader.AddChunk(c.Name, c.ChunkIndex, c.ChunkCount, c.Content); err != nil {
			_ = loader.Close()
			return err
		}
	}
	loader.Complete()
	_ = loader.Close()
	db, err := kv.NewDB(ns, shard, pf, time.Hour, time2.SystemClock)
	if err != nil {
		f.n.failf("snapshot-unusable", "%s cannot open the database it was sent: %v", f.name, err)
		return err
	}
	c, err := db.ReadCommitOffset()
	_ = db.Close()
	if err != nil {
		return err
	}
	f.log, f.base = nil, c+1
	return stream.SendAndClose(&proto.SnapshotResponse{AckOffset: c})
}

type node struct {
	s    *vsched.Sched
	dir  string
	gen  int
	grp  int
	net  *oxc.Net
	lc   server.LeaderController
	kvf  kv.Factory
	walf wal.Factory
	f    [2]*cfol
	// model
	ackTerm int64
	leading bool
	fenced  bool
	quorum  bool // a follower is answering
	tail    bool // the last entry of the log is on this node only (appended while no follower answered)
	acked   map[string]string
	nextID  int
	fails   []fail
	// the entry appended while no follower answered: its offset and term, the term in which it was first
	// replicated (0: not yet), and the terms in which this node was asked to lead
	soloOff, soloTerm, soloCommitTerm int64
	candidateIn                       map[int64]bool
	foreignHit                        bool
	// explore: the election step runs with schedule exploration switched on (schedule stage)
	explore bool
}

func (n *node) failf(key, f string, a ...any) {
	for _, x := range n.fails {
		if x.Key == key {
			return
		}
	}
	n.fails = append(n.fails, fail{key, fmt.Sprintf(f, a...)})
}

func (n *node) open() error {
	n.gen++
	n.grp = 100 + n.gen
	prev := n.s.Cur().Group
	n.s.SetGroup(n.grp)
	defer n.s.SetGroup(prev)
	pf, err := kv.NewPebbleKVFactory(&kv.FactoryOptions{DataDir: filepath.Join(n.dir, "db"), CacheSizeMB: 1})
	if err != nil {
		return err
	}
	n.kvf = pf
	n.walf = wal.NewWalFactory(&wal.FactoryOptions{BaseWalDir: filepath.Join(n.dir, "wal"), Retention: time.Hour, SegmentSize: 64 * 1024, SyncData: true})
	lc, err := server.NewLeaderController(server.Config{NotificationsRetentionTime: time.Hour}, ns, shard, n.net, n.walf, n.kvf)
	if err != nil {
		return err
	}
	n.lc = lc
	n.leading, n.fenced = false, false
	return nil
}

func (n *node) entries() []*proto.LogEntry {
	w := server.VerifLeaderWal(n.lc)
	var out []*proto.LogEntry
	rd, err := w.NewReader(-1)
	if err != nil {
		return nil
	}
	defer rd.Close()
	for rd.HasNext() {
		e, err := rd.ReadNext()
		if err != nil {
			break
		}
		out = append(out, e)
	}
	return out
}

func (n *node) put() (string, string, error) {
	n.nextID++
	key, val := fmt.Sprintf("k%d", n.nextID%2), fmt.Sprintf("v%d", n.nextID)
	type res struct {
		r   *proto.WriteResponse
		err error
	}
	ch := make(chan res, 1)
	t := n.s.Go("client-write", func() {
		r, err := n.lc.WriteBlock(context.Background(), &proto.WriteRequest{Shard: oxh.I64(shard), Puts: []*proto.PutRequest{{Key: key, Value: []byte(val)}}})
		vsched.Send(ch)(res{r, err})
	})
	t.Group = n.grp
	n.s.Settle()
	r := vsched.Select(true, vsched.RecvCase(ch))
	if r.I != 0 {
		return key, val, errPending
	}
	x := r.Val.(res)
	if x.err != nil {
		return key, val, x.err
	}
	if len(x.r.Puts) != 1 || x.r.Puts[0].Status != proto.Status_OK {
		return key, val, fmt.Errorf("status %v", x.r.Puts)
	}
	return key, val, nil
}

var errPending = fmt.Errorf("write did not complete")

// shape builds a follower log of the given shape from the leader's log.
func shape(sh int, l []*proto.LogEntry) ([]*proto.LogEntry, bool) {
	h := len(l) - 1
	cp := func(upTo int) []*proto.LogEntry {
		var o []*proto.LogEntry
		for i := 0; i <= upTo; i++ {
			o = append(o, l[i].CloneVT())
		}
		return o
	}
	// end of the older term: last index whose term is below the head's term
	j := -1
	if h >= 0 {
		for i := h; i >= 0; i-- {
			if l[i].Term < l[h].Term {
				j = i
				break
			}
		}
	}
	switch sh {
	case shEqual, shMute:
		return cp(h), true
	case shBehind1:
		if h < 0 {
			return nil, false
		}
		return cp(h - 1), true
	case shEmpty:
		return nil, true
	case shOldTerm:
		if j < 0 {
			return nil, false
		}
		return cp(j), true
	case shDiverge:
		if j < 0 {
			return nil, false
		}
		o := cp(j)
		for k := 1; k <= 2; k++ {
			o = append(o, &proto.LogEntry{Term: l[j].Term, Offset: int64(j + k), Value: []byte(fmt.Sprintf("never-committed-%d", k)), Timestamp: 1})
		}
		return o, true
	}
	return nil, false
}

// foreignShape: the log of a follower that led the term right after the one in which this node appended an entry
// no other node received. That follower was elected on the log without that entry (this node did not take part:
// it was not a candidate in that term and had replicated the entry to nobody), appended one entry of its own at the
// same offset, and reached nobody either. This node's entry was replicated only later; the log of this node goes
// on with entries of later terms. Such a follower reports (skipped term, offset) as its head.
func (n *node) foreignShape(l []*proto.LogEntry) ([]*proto.LogEntry, bool) {
	i, t := n.soloOff, n.soloTerm+1
	if i < 0 || n.candidateIn[t] || n.soloCommitTerm <= t || int64(len(l)) <= i+1 || l[i].Term != n.soloTerm || l[i+1].Term <= t {
		return nil, false
	}
	var o []*proto.LogEntry
	for k := int64(0); k < i; k++ {
		o = append(o, l[k].CloneVT())
	}
	o = append(o, &proto.LogEntry{Term: t, Offset: i, Value: []byte("written-by-the-leader-of-a-term-this-node-sat-out"), Timestamp: 1})
	return o, true
}

func (n *node) step(op int) bool {
	s := n.s
	ctx := context.Background()
	switch {
	case op == opNewTerm:
		t := n.ackTerm + 1
		if _, err := n.lc.NewTerm(&proto.NewTermRequest{Namespace: ns, Shard: shard, Term: t, Options: &proto.NewTermOptions{EnableNotifications: true}}); err != nil {
			n.failf("newterm-failed", "NewTerm(%d): %v", t, err)
			return true
		}
		s.Settle()
		n.ackTerm, n.leading, n.fenced, n.quorum = t, false, true, false
	case op >= opElect0:
		if !n.fenced {
			return false
		}
		el := elections[op-opElect0]
		l := n.entries()
		if n.tail && len(l) > 0 {
			l = l[:len(l)-1] // the last entry is on this node only: no follower shape may contain it
		}
		fm := map[string]*proto.EntryId{}
		n.candidateIn[n.ackTerm] = true
		for i, sh := range []int{el.a, el.b} {
			lg, ok := shape(sh, l)
			foreign := int64(-1)
			if sh == shForeign {
				if lg, ok = n.foreignShape(l); ok {
					foreign = n.soloOff
				}
			}
			if !ok {
				return false
			}
			f := &cfol{n: n, name: fmt.Sprintf("f%d", i+1), log: lg, mute: sh == shMute, term: n.ackTerm, foreign: foreign}
			n.f[i] = f
			n.net.Peers[f.name] = f
			fm[f.name] = f.head()
		}
		type res struct{ err error }
		ch := make(chan res, 1)
		if n.explore {
			s.Explore(true)
		}
		th := s.Go("rpc:BecomeLeader", func() {
			_, err := n.lc.BecomeLeader(ctx, &proto.BecomeLeaderRequest{Namespace: ns, Shard: shard, Term: n.ackTerm, ReplicationFactor: 3, FollowerMaps: fm})
			vsched.Send(ch)(res{err})
		})
		th.Group = n.grp
		s.Settle()
		s.Explore(false)
		r := vsched.Select(true, vsched.RecvCase(ch))
		if r.I != 0 {
			n.failf("become-leader-stuck", "%s with at least one reachable follower never returned", opName(op))
			return true
		}
		if err := r.Val.(res).err; err != nil {
			if !n.foreignHit { // the checking follower refuses that truncation (reported under its own key)
				n.failf("become-leader-failed", "%s: %v", opName(op), err)
			}
			return true
		}
		if n.tail && n.soloCommitTerm == 0 {
			n.soloCommitTerm = n.ackTerm
		}
		n.leading, n.fenced, n.quorum, n.tail = true, false, true, false
	case op == opPut:
		if n.leading && !n.quorum {
			return false
		}
		key, val, err := n.put()
		if !n.leading {
			if err == nil {
				n.failf("write-accepted-by-non-leader", "a client put succeeded on a node that does not lead term %d", n.ackTerm)
			}
			return true
		}
		if err != nil {
			n.failf("write-failed", "put on the leader of term %d with a reachable follower: %v", n.ackTerm, err)
			return true
		}
		n.acked[key] = val
	case op == opPutNoQuorum:
		if !n.leading || !n.quorum {
			return false
		}
		n.quorum = false
		for _, f := range n.f {
			if f != nil {
				f.mute = true
			}
		}
		for _, st := range n.net.Streams {
			st.Break()
		}
		s.Settle()
		n.nextID++
		cctx, cancel := context.WithCancel(ctx)
		done := false
		var werr error
		th := s.Go("client-write", func() {
			_, werr = n.lc.WriteBlock(cctx, &proto.WriteRequest{Shard: oxh.I64(shard), Puts: []*proto.PutRequest{{Key: "kq", Value: []byte(fmt.Sprintf("never-acknowledged-%d", n.nextID))}}})
			done = true
		})
		th.Group = n.grp
		s.Settle()
		if done && werr == nil {
			n.failf("write-acknowledged-without-quorum", "a put completed successfully on the leader of term %d while no follower was answering", n.ackTerm)
		}
		cancel()
		s.Settle()
		n.tail = true
		if l := n.entries(); len(l) > 0 && n.soloOff < 0 {
			n.soloOff, n.soloTerm, n.soloCommitTerm = l[len(l)-1].Offset, l[len(l)-1].Term, 0
		}
	case op == opElectNoQuorum:
		// only meaningful when the candidate's last entry is on no other node (otherwise a quorum holds it already)
		if !n.fenced || !n.tail {
			return false
		}
		l := n.entries()
		fm := map[string]*proto.EntryId{}
		for i := range n.f {
			// both followers lack the candidate's last entry and do not answer: the election cannot complete
			lg, ok := shape(shBehind1, l)
			if !ok {
				return false
			}
			f := &cfol{n: n, name: fmt.Sprintf("f%d", i+1), log: lg, mute: true, term: n.ackTerm, foreign: -1}
			n.f[i] = f
			n.net.Peers[f.name] = f
			fm[f.name] = f.head()
		}
		db := server.VerifLeaderDB(n.lc)
		before, _ := db.ReadCommitOffset()
		cctx, cancel := context.WithCancel(ctx)
		done := false
		var berr error
		th := s.Go("rpc:BecomeLeader", func() {
			_, berr = n.lc.BecomeLeader(cctx, &proto.BecomeLeaderRequest{Namespace: ns, Shard: shard, Term: n.ackTerm, ReplicationFactor: 3, FollowerMaps: fm})
			done = true
		})
		th.Group = n.grp
		s.Settle()
		headOff := int64(len(l)) - 1
		if done && berr == nil {
			n.failf("leader-installed-without-quorum", "BecomeLeader(%d) completed although no follower holds the candidate's last entry (offset %d) and none answered", n.ackTerm, headOff)
		}
		cancel() // the coordinator's deadline
		s.Settle()
		if db2 := server.VerifLeaderDB(n.lc); db2 != nil {
			if after, err := db2.ReadCommitOffset(); err == nil && after >= headOff && before < headOff {
				n.failf("uncommitted-entries-applied-before-quorum", "BecomeLeader(%d) failed for lack of a quorum, yet the database moved from commit offset %d to %d: offset %d, which only this node holds, was applied", n.ackTerm, before, after, headOff)
			}
		}
		if done && berr == nil {
			n.leading, n.fenced = true, false
		}
	case op == opRestart || op == opCrash:
		if op == opRestart {
			_ = n.lc.Close()
			s.Settle()
			_ = n.walf.Close()
			_ = n.kvf.Close()
		} else {
			old := n.lc
			n.s.KillGroup(n.grp)
			func() {
				defer func() { _ = recover() }()
				if db := server.VerifLeaderDB(old); db != nil {
					_ = kv.VerifPebble(kv.VerifKV(db)).Close()
				}
			}()
			wal.VerifForceClose(server.VerifLeaderWal(old))
		}
		if err := n.open(); err != nil {
			n.failf("restart-failed", "%s: the node does not come back: %v", opName(op), err)
			return true
		}
		s.Settle()
	}
	return true
}

func (n *node) invariants(after string) {
	l := n.entries()
	if n.leading {
		// every attached, reachable follower holds exactly the leader's log
		for _, f := range n.f {
			if f == nil || f.mute {
				continue
			}
			lastF := f.base + int64(len(f.log)) - 1
			if len(l) > 0 && lastF != l[len(l)-1].Offset {
				n.failf("follower-not-caught-up", "after %s %s ends at offset %d, the leader's log at %d, and nothing is in flight", after, f.name, lastF, l[len(l)-1].Offset)
				continue
			}
			for _, e := range f.log {
				if int(e.Offset) >= len(l) {
					break
				}
				le := l[e.Offset]
				if le.Term != e.Term || string(le.Value) != string(e.Value) {
					n.failf("follower-log-diverges", "after %s %s holds (term %d, %q…) at offset %d where the leader holds (term %d)", after, f.name, e.Term, trunc(e.Value), e.Offset, le.Term)
					break
				}
			}
		}
		// the commit offset is held by a majority: the leader and at least one of its two followers store
		// every entry up to it (a follower restored from a snapshot holds what the snapshot covers)
		if _, _, commit, ok := server.VerifPeekTracker(n.lc); ok && commit >= 0 {
			holders := 0
			for _, f := range n.f {
				if f != nil && f.base+int64(len(f.log))-1 >= commit {
					holders++
				}
			}
			if holders == 0 {
				n.failf("commit-offset-not-held-by-quorum", "after %s the leader of term %d has commit offset %d, which neither follower stores (f1 ends at %d, f2 ends at %d): only the leader holds it", after, n.ackTerm, commit,
					n.f[0].base+int64(len(n.f[0].log))-1, n.f[1].base+int64(len(n.f[1].log))-1)
			}
		}
		db := server.VerifLeaderDB(n.lc)
		var keys []string
		for k := range n.acked {
			keys = append(keys, k)
		}
		sort.Strings(keys)
		for _, k := range keys {
			g, err := db.Get(&proto.GetRequest{Key: k, IncludeValue: true})
			if err != nil || g.Status != proto.Status_OK || string(g.Value) != n.acked[k] {
				n.failf("acked-write-lost", "after %s the leader of term %d returns %s = %v, acknowledged was %q", after, n.ackTerm, k, g, n.acked[k])
			}
		}
	}
	db := server.VerifLeaderDB(n.lc)
	if db == nil {
		return
	}
	c, err := db.ReadCommitOffset()
	if err != nil || c < 0 {
		return
	}
	if int(c) >= len(l) {
		n.failf("commit-offset-ahead-of-log", "after %s the database records commit offset %d, the log holds %d entries", after, c, len(l))
		return
	}
	if d := oxc.FoldDiffers(ns, shard, db, l, c); d != "" {
		n.failf("state-not-fold-of-log", "after %s the leader's database (commit offset %d) differs from applying its log entries 0..%d in order:\n %s", after, c, c, d)
	}
}

func trunc(b []byte) string {
	if len(b) > 12 {
		return string(b[:12])
	}
	return string(b)
}

func body(seq []int, out *outcome) func(s *vsched.Sched) { return bodyX(seq, out, false) }

// bodyX: exploreLast runs the last event of seq (an election) under schedule exploration.
func bodyX(seq []int, out *outcome, exploreLast bool) func(s *vsched.Sched) {
	return func(s *vsched.Sched) {
		s.Explore(false)
		env := oxc.NewEnv(s)
		n := &node{s: s, dir: filepath.Join(env.Dir, "n1"), net: oxc.NewNet(), ackTerm: 0, acked: map[string]string{}, soloOff: -1, candidateIn: map[int64]bool{}}
		defer func() {
			if n.lc != nil {
				_ = n.lc.Close()
				s.Settle()
				_ = n.walf.Close()
				_ = n.kvf.Close()
			}
		}()
		if err := n.open(); err != nil {
			out.Fails = append(out.Fails, fail{"harness-setup", err.Error()})
			return
		}
		// start state: terms 1 and 2, two acknowledged writes each, everything applied
		for _, op := range []int{opNewTerm, opElect0, opPut, opPut, opNewTerm, opElect0, opPut, opPut} {
			if !n.step(op) || len(n.fails) > 0 {
				out.Fails = append(n.fails, fail{"harness-setup", "cannot build the start state"})
				return
			}
		}
		s.Settle()
		n.invariants("the start state")
		if len(n.fails) > 0 {
			out.Applicable = true
			out.Fails = n.fails
			return
		}
		out.Applicable = true
		for i, op := range seq {
			n.explore = exploreLast && i == len(seq)-1
			if !n.step(op) {
				if i == len(seq)-1 {
					out.Applicable = false
				}
				return
			}
			n.invariants(opName(op))
			if len(n.fails) > 0 {
				break
			}
		}
		out.Fails = n.fails
		l := n.entries()
		out.Sig = fmt.Sprintf("term=%d leading=%v fenced=%v entries=%d", n.ackTerm, n.leading, n.fenced, len(l))
	}
}

// SchedScenarios: fixed event sequences whose last event, an election, runs under schedule exploration: the
// candidate's threads (BecomeLeader, follower cursors, snapshot sender, ack receivers) and the checking
// followers interleave in every way up to the deviation bound. keep selects the failure keys that count.
func SchedScenarios(tier string, keep map[string]bool) []sched.Scenario {
	idx := func(a, b int) int {
		for i, e := range elections {
			if e.a == a && e.b == b {
				return opElect0 + i
			}
		}
		panic("no such election")
	}
	type sc struct {
		name string
		seq  []int
	}
	scs := []sc{
		// the candidate holds an entry no follower has; one follower is level with the rest of its log, the
		// other is empty and is restored from a snapshot while the first one acknowledges the tail
		{"uncommitted-tail-then-election-empty+level", []int{opPutNoQuorum, opNewTerm, idx(shEmpty, shEqual)}},
		{"election-empty+longer-tail-of-older-term", []int{opNewTerm, idx(shEmpty, shDiverge)}},
		{"uncommitted-tail-then-election-one-behind+longer-tail", []int{opPutNoQuorum, opNewTerm, idx(shBehind1, shDiverge)}},
		// an entry reaches no follower; this node sits out the next term (whose leader writes its own entry at
		// that offset, reaching nobody); it leads the term after that with one follower, writes; in the next
		// election the leader of the skipped term is back
		{"follower-back-with-entry-of-a-term-this-node-sat-out", []int{opPutNoQuorum, opNewTerm, opNewTerm, idx(shBehind1, shMute), opPut, opNewTerm, idx(shEqual, shForeign)}},
	}
	dev := 2
	if tier == "thorough" {
		dev = 3
	}
	var out []sched.Scenario
	for _, x := range scs {
		x := x
		out = append(out, sched.Scenario{Name: x.name, MaxDev: dev, Cfg: vsched.Config{MaxSteps: 400000, MaxTime: int64(10 * time.Minute)},
			Body: func(s *vsched.Sched) {
				var o outcome
				bodyX(x.seq, &o, true)(s)
				if (!o.Applicable || o.Sig == "") && len(o.Fails) == 0 {
					s.Fail("harness-setup", "the event sequence is not applicable")
				}
				for _, f := range o.Fails {
					if keep == nil || keep[f.Key] {
						s.Fail(f.Key, f.Msg)
					}
				}
				s.Data = o.Sig
			}})
	}
	return out
}

func runSeq(seq []int) outcome {
	var out outcome
	cfg := vsched.Config{MaxSteps: 400000, MaxTime: int64(10 * time.Minute)}
	x := vsched.RunOne(&cfg, nil, nil, body(seq, &out))
	if x.Panic != "" {
		out.Fails = append(out.Fails, fail{"panic", x.Panic})
	}
	for _, f := range x.Fails {
		out.Fails = append(out.Fails, fail{f.Key, f.Msg})
	}
	return out
}

type wresult struct {
	Runs       int64            `json:"runs"`
	Applicable int64            `json:"applicable"`
	ByDepth    map[int]int64    `json:"by_depth"`
	Sigs       map[string]int64 `json:"sigs"`
	Fails      map[string][]any `json:"fails"`
	Cut        bool             `json:"cut"`
	Completed  int              `json:"completed"`
}

func names(seq []int) []string {
	var o []string
	for _, x := range seq {
		o = append(o, opName(x))
	}
	return o
}

func worker(idx, nw int, depths []int, deadline time.Time, keep map[string]bool) wresult {
	r := wresult{ByDepth: map[int]int64{}, Sigs: map[string]int64{}, Fails: map[string][]any{}}
	prev := 0
	for _, depth := range depths {
		workerPass(&r, idx, nw, prev, depth, deadline, keep)
		if r.Cut {
			break
		}
		r.Completed = depth
		prev = depth
	}
	return r
}

func workerPass(r *wresult, idx, nw, prev, depth int, deadline time.Time, keep map[string]bool) {
	var rec func(seq []int)
	rec = func(seq []int) {
		if time.Now().After(deadline) {
			r.Cut = true
			return
		}
		// sharded by the first three events (few first events are applicable: two would leave most workers idle)
		if len(seq) == 3 && ((seq[0]*nOps()+seq[1])*nOps()+seq[2])%nw != idx {
			return
		}
		mine := (len(seq) >= 3 || idx == 0) && len(seq) > prev
		var o outcome
		o.Applicable = true
		if len(seq) > 0 || idx == 0 {
			o = runSeq(seq)
			if mine {
				r.Runs++
			}
		}
		if !o.Applicable {
			return
		}
		if (len(seq) > 0 && mine) || (len(seq) == 0 && idx == 0 && prev == 0) {
			if len(seq) > 0 {
				r.Applicable++
				r.ByDepth[len(seq)]++
			}
			if len(r.Sigs) < 4000 {
				r.Sigs[o.Sig]++
			}
			for _, f := range o.Fails {
				if keep != nil && !keep[f.Key] {
					continue
				}
				if cur, ok := r.Fails[f.Key]; !ok || len(cur[0].([]int)) > len(seq) {
					cnt := int64(0)
					if ok {
						cnt = cur[2].(int64)
					}
					r.Fails[f.Key] = []any{append([]int{}, seq...), f.Msg, cnt + 1}
				} else {
					cur[2] = cur[2].(int64) + 1
				}
			}
		}
		if len(o.Fails) > 0 || len(seq) >= depth {
			return
		}
		for op := 0; op < nOps(); op++ {
			rec(append(append([]int{}, seq...), op))
		}
	}
	rec(nil)
}

// Main runs the search for one property. keep selects the failure keys that count for it.
func Main(property string, keep map[string]bool) int {
	replay := flag.String("replay", "", "replay file")
	flag.Parse()
	oxh.Quiet()
	tier := os.Getenv("VERIF_TIER")
	depth := 3
	budget := 70 * time.Second
	if tier == "thorough" {
		depth = 5
		budget = 20 * time.Minute
	}
	depths := []int{depth}
	if tier == "thorough" {
		depths = []int{depth - 1, depth}
	}
	if d := os.Getenv("VERIF_DEPTH"); d != "" {
		fmt.Sscanf(d, "%d", &depth)
		depths = []int{depth}
	}
	if *replay != "" {
		var doc struct {
			First struct {
				Replay struct {
					Seq []int `json:"lseq"`
				} `json:"replay"`
			} `json:"first"`
		}
		if err := ev.ReadJSON(*replay, &doc); err != nil {
			fmt.Println("cannot read replay:", err)
			return 2
		}
		o := runSeq(doc.First.Replay.Seq)
		fmt.Println("events:", names(doc.First.Replay.Seq))
		fmt.Println("end state:", o.Sig)
		bad := false
		for _, f := range o.Fails {
			if keep == nil || keep[f.Key] {
				fmt.Printf("  %s: %s\n", f.Key, f.Msg)
				bad = true
			}
		}
		if bad {
			fmt.Printf("VIOLATION property=%s replay=%s\n", property, *replay)
			return 1
		}
		fmt.Println("replay passed")
		return 0
	}
	if w := os.Getenv("VERIF_WORKER"); w != "" {
		var idx, nw int
		fmt.Sscanf(w, "%d/%d", &idx, &nw)
		var dl int64
		fmt.Sscanf(os.Getenv("VERIF_DEADLINE"), "%d", &dl)
		r := worker(idx, nw, depths, time.Unix(dl, 0), keep)
		b, _ := json.Marshal(r)
		_ = os.WriteFile(os.Getenv("VERIF_WORKER_OUT"), b, 0o644)
		return 0
	}
	run := ev.NewRun(property, "model_checking")
	run.MergeExisting = os.Getenv("VERIF_STAGE2") != ""
	nw := 16
	if v := os.Getenv("VERIF_WORKERS"); v != "" {
		fmt.Sscanf(v, "%d", &nw)
	}
	deadline := time.Now().Add(budget)
	scratch := ev.Scratch(strings.ToLower(property) + "-lfsm")
	defer os.RemoveAll(scratch)
	results := make([]*wresult, nw)
	var wg sync.WaitGroup
	failed := false
	for i := 0; i < nw; i++ {
		wg.Add(1)
		go func(i int) {
			defer wg.Done()
			outf := fmt.Sprintf("%s/w%d.json", scratch, i)
			cmd := exec.Command(os.Args[0])
			cmd.Env = append(os.Environ(), fmt.Sprintf("VERIF_WORKER=%d/%d", i, nw), "VERIF_WORKER_OUT="+outf,
				fmt.Sprintf("VERIF_DEADLINE=%d", deadline.Unix()), "GOMAXPROCS=2", "GOMEMLIMIT=900MiB", "VERIF_SCRATCH="+scratch)
			cmd.Stderr = os.Stderr
			wd := time.AfterFunc(time.Until(deadline)+2*time.Minute, func() {
				if cmd.Process != nil {
					_ = cmd.Process.Kill()
				}
			})
			err := cmd.Run()
			wd.Stop()
			if err != nil {
				failed = true
				fmt.Fprintf(os.Stderr, "worker %d failed: %v\n", i, err)
				return
			}
			b, err := os.ReadFile(outf)
			if err != nil {
				failed = true
				return
			}
			var r wresult
			if json.Unmarshal(b, &r) == nil {
				results[i] = &r
			}
		}(i)
	}
	wg.Wait()
	if failed {
		fmt.Fprintln(os.Stderr, "a worker process failed (infrastructure)")
		return 2
	}
	sigs := map[string]bool{}
	byDepth := map[int]int64{}
	type fv struct {
		seq []int
		msg string
		cnt int64
	}
	fails := map[string]*fv{}
	var runs, appl int64
	cut, completed := false, depth
	for _, r := range results {
		if r == nil {
			continue
		}
		runs += r.Runs
		appl += r.Applicable
		if r.Cut {
			cut = true
		}
		if r.Completed < completed {
			completed = r.Completed
		}
		for k := range r.Sigs {
			sigs[k] = true
		}
		for d, c := range r.ByDepth {
			byDepth[d] += c
		}
		for k, v := range r.Fails {
			var seq []int
			for _, x := range v[0].([]any) {
				seq = append(seq, int(x.(float64)))
			}
			cnt := int64(v[2].(float64))
			if cur, ok := fails[k]; !ok || len(seq) < len(cur.seq) {
				c := cnt
				if ok {
					c += cur.cnt
				}
				fails[k] = &fv{seq, v[1].(string), c}
			} else {
				cur.cnt += cnt
			}
		}
	}
	run.Add("states", appl)
	run.Add("transitions", runs)
	run.Add("traces_validated_against_impl", runs)
	run.Add("evaluations", runs)
	run.DistinctN(int64(len(sigs)))
	if cut {
		run.NotExhaustive(fmt.Sprintf("deadline reached: every event sequence up to length %d was run, those of length %d only in part", completed, depth))
	}
	run.Coverage["max_depth"] = depth
	run.Coverage["max_depth_completed"] = completed
	var alpha []string
	for op := 0; op < nOps(); op++ {
		alpha = append(alpha, opName(op))
	}
	run.Coverage["event_alphabet"] = alpha
	run.Coverage["applicable_sequences_by_length"] = byDepth
	run.Sample(map[string]any{"start_state": "terms 1 and 2 led by the node, two acknowledged puts each", "events": []string{opName(opNewTerm), opName(opElect0 + 2), opName(opPut), opName(opCrash)}})
	run.Assume = []string{"the leader's threads run under the cooperative scheduler with its default schedule: this search enumerates event sequences, not interleavings",
		"follower shapes are built from the candidate's own log at election time and respect what an election guarantees (the candidate's head is maximal, committed entries are on every shape except the empty one)",
		"a crash kills the node's threads and releases the storage engine without its orderly shutdown"}
	var keys []string
	for k := range fails {
		keys = append(keys, k)
	}
	sort.Strings(keys)
	for _, k := range keys {
		f := fails[k]
		run.Violate(ev.Violation{Key: k, Harness: "leader-fsm", Message: fmt.Sprintf("start state + events %v: %s (%d sequences)", names(f.seq), f.msg, f.cnt),
			Replay: map[string]any{"lseq": f.seq, "events": names(f.seq)}})
	}
	return run.Finish("every sequence of leader protocol events (new term, election with one of 9 ensemble shapes, client put, restart, crash) up to max_depth from a preloaded two-term start state, replayed from scratch on a real leader controller against checking followers; distinct = distinct end states")
}
