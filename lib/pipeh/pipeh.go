// Package pipeh is the leader write pipeline harness shared by C08 (all oracles) and the
// schedule stage of C07 (apply order / exactly-once oracles only).
//
// C08: the leader write pipeline is order-preserving and does not fail spuriously.
// E2: real leaderController + real WAL + real DB under the cooperative scheduler,
// scripted followers acknowledging over in-process streams; all schedules up to a
// deviation bound.
package pipeh

import (
	"context"
	"flag"
	"fmt"
	"sort"
	"strings"
	"time"

	"github.com/oxia-db/oxia/proto"
	"github.com/oxia-db/oxia/server"
	"github.com/oxia-db/oxia/server/wal"
	"github.com/oxia-db/oxia/zzverif/vsched"

	"verif/lib/oxc"
	"verif/lib/oxh"
	"verif/lib/sched"
)

// scripted follower: acknowledges every append (optionally twice); `mute` never acks.
type scripted struct {
	name string
	dup  bool
	mute bool
	sent map[int64]bool // offsets it has acknowledged
}

func (f *scripted) Replicate(stream proto.OxiaLogReplication_ReplicateServer) error {
	for {
		a, err := stream.Recv()
		if err != nil {
			return err
		}
		if f.mute {
			continue
		}
		if f.sent == nil {
			f.sent = map[int64]bool{}
		}
		f.sent[a.Entry.Offset] = true
		if err := stream.Send(&proto.Ack{Offset: a.Entry.Offset}); err != nil {
			return err
		}
		if f.dup {
			_ = stream.Send(&proto.Ack{Offset: a.Entry.Offset})
		}
	}
}

func (f *scripted) SendSnapshot(proto.OxiaLogReplication_SendSnapshotServer) error {
	return fmt.Errorf("unexpected snapshot")
}

func (f *scripted) Truncate(req *proto.TruncateRequest) (*proto.TruncateResponse, error) {
	return &proto.TruncateResponse{HeadEntryId: req.HeadEntryId}, nil
}

type variant struct {
	name     string
	writers  int
	rf       uint32
	syncData bool
	dup      bool
	mute     int   // number of followers that never acknowledge (must leave a quorum)
	perW     int   // writes per writer
	cancel   bool  // writer 0's context is cancelled by another thread while its write is in flight
	sameKey  bool  // all writers write the same key (C02: the leader's state must follow the log order)
	fence    bool  // a NewTerm(term+1) request races with the writers (acks may arrive after the tracker is closed)
	seg      int32 // WAL segment size (0 = 64 KiB); a few hundred bytes make segments roll over while syncs are pending
}

type wres struct {
	done bool
	err  error
	resp *proto.WriteResponse
}

func body(v variant) func(s *vsched.Sched) {
	return func(s *vsched.Sched) {
		s.Explore(false)
		env := oxc.NewEnv(s)
		net := oxc.NewNet()
		kvf := oxc.NewObsFactory(env.Dir)
		seg := int32(64 * 1024)
		if v.seg > 0 {
			seg = v.seg
		}
		walf := env.WalFactory("leader", seg, v.syncData)
		lc, err := server.NewLeaderController(server.Config{NotificationsRetentionTime: time.Hour}, "ns", 1, net, walf, kvf)
		if err != nil {
			fail(s, "harness-setup", err.Error())
			return
		}
		fm := map[string]*proto.EntryId{}
		var fols []*scripted
		for i := 0; i < int(v.rf)-1; i++ {
			name := fmt.Sprintf("f%d", i+1)
			sf := &scripted{name: name, dup: v.dup, mute: i < v.mute}
			fols = append(fols, sf)
			net.Peers[name] = sf
			fm[name] = &proto.EntryId{Term: -1, Offset: -1}
		}
		if _, err := lc.NewTerm(&proto.NewTermRequest{Namespace: "ns", Shard: 1, Term: 1, Options: &proto.NewTermOptions{EnableNotifications: true}}); err != nil {
			fail(s, "harness-setup", err.Error())
			return
		}
		if _, err := lc.BecomeLeader(context.Background(), &proto.BecomeLeaderRequest{Namespace: "ns", Shard: 1, Term: 1, ReplicationFactor: v.rf, FollowerMaps: fm}); err != nil {
			fail(s, "harness-setup", err.Error())
			return
		}
		// let the cursors attach before the writers start (non-initial state: quiescent leader)
		s.Settle()
		// monitor at every scheduling point from here on
		lastCommit := int64(-1)
		mon := func(s *vsched.Sched) {
			_, head, commit, ok := server.VerifPeekTracker(lc)
			if !ok {
				return
			}
			if commit < lastCommit {
				fail(s, "commit-offset-decreased", fmt.Sprintf("commit offset moved from %d to %d", lastCommit, commit))
			}
			if commit > head {
				fail(s, "commit-beyond-head", fmt.Sprintf("commit offset %d > head offset %d", commit, head))
			}
			lastCommit = commit
		}
		monitor = mon
		s.Explore(true)
		n := v.writers * v.perW
		results := make([]wres, n)
		cctx, ccancel := context.WithCancel(context.Background())
		if v.cancel {
			vsched.Go(func() { ccancel() })
		}
		for w := 0; w < v.writers; w++ {
			w := w
			vsched.Go(func() {
				for j := 0; j < v.perW; j++ {
					i := w*v.perW + j
					ctx := context.Background()
					if v.cancel && w == 0 {
						ctx = cctx
					}
					key := fmt.Sprintf("k%d", i)
					if v.sameKey {
						key = "k"
					}
					resp, err := lc.WriteBlock(ctx, &proto.WriteRequest{Shard: oxh.I64(1),
						Puts: []*proto.PutRequest{{Key: key, Value: []byte(fmt.Sprintf("v%d", i))}}})
					results[i] = wres{done: true, err: err, resp: resp}
					if err == nil && len(resp.Puts) == 1 && resp.Puts[0].Status == proto.Status_OK {
						// the version id of a put is the offset of its entry; a follower that has not even sent
						// its acknowledgement cannot have been counted
						off, holders := resp.Puts[0].Version.VersionId, 0
						for _, f := range fols {
							if f.sent[off] {
								holders++
							}
						}
						if need := int(v.rf) / 2; holders < need {
							fail(s, "write-acknowledged-without-quorum", fmt.Sprintf("the put of %s (offset %d) was answered OK when %d of %d followers had acknowledged the entry; replication factor %d needs %d besides the leader", key, off, holders, int(v.rf)-1, v.rf, need))
						}
					}
				}
			})
		}
		if v.fence {
			vsched.Go(func() {
				_, _ = lc.NewTerm(&proto.NewTermRequest{Namespace: "ns", Shard: 1, Term: 2, Options: &proto.NewTermOptions{EnableNotifications: true}})
			})
		}
		s.Settle()
		s.Explore(false)
		monitor = nil
		if v.fence {
			// writes may be refused; what must hold is that whatever the node applied is the fold of
			// its log up to the commit offset its database records, one offset at a time
			w := server.VerifLeaderWal(lc)
			db := server.VerifLeaderDB(lc)
			c, _ := db.ReadCommitOffset()
			var entries []*proto.LogEntry
			if rd, err := w.NewReader(-1); err == nil {
				for rd.HasNext() {
					e, err := rd.ReadNext()
					if err != nil {
						break
					}
					entries = append(entries, e)
				}
				_ = rd.Close()
			}
			if d := oxc.FoldDiffers("ns", 1, db, entries, c); d != "" {
				fail(s, "leader-state-not-fold-of-log", fmt.Sprintf("database of a leader fenced while writes were in flight (stored commit offset %d) differs from applying log entries 0..%d in order:\n %s", c, c, d))
			}
			for _, seq := range kvf.CommitSequences() {
				if msg := oxc.CheckSequential(seq, -1); msg != "" {
					fail(s, "apply-out-of-order", msg)
				}
			}
			s.Data = fmt.Sprintf("fenced|db-commit=%d entries=%d", c, len(entries))
			_ = lc.Close()
			return
		}
		// ---- oracle at quiescence
		var outcome []string
		okCount := 0
		for i, r := range results {
			switch {
			case !r.done:
				fail(s, "write-wedged", fmt.Sprintf("write %d never completed although a quorum of followers is healthy; blocked: %s", i, strings.Join(s.Blocked(), "; ")))
				outcome = append(outcome, "hang")
			case r.err != nil && v.cancel && i < v.perW:
				// the caller gave up: an error is a legitimate answer (the entry may still commit)
				outcome = append(outcome, "cancelled")
			case r.err != nil:
				fail(s, "write-failed", fmt.Sprintf("write %d failed: %v", i, r.err))
				outcome = append(outcome, "err")
			default:
				okCount++
				outcome = append(outcome, fmt.Sprint(r.resp.Puts[0].Version.VersionId))
			}
		}
		w := server.VerifLeaderWal(lc)
		_, appended, synced := wal.VerifPeekOffsets(w)
		_, head, commit, _ := server.VerifPeekTracker(lc)
		if okCount == n {
			if synced != int64(n-1) || appended != int64(n-1) {
				fail(s, "wal-not-contiguous", fmt.Sprintf("after %d successful writes WAL appended=%d synced=%d", n, appended, synced))
			}
			if head != int64(n-1) || commit != int64(n-1) {
				fail(s, "commit-offset-wrong", fmt.Sprintf("after %d acknowledged writes head=%d commit=%d, expected both %d", n, head, commit, n-1))
			}
			// each caller got the response of its own request: version read back must match
			db := server.VerifLeaderDB(lc)
			seenVer := map[int64]bool{}
			for i, r := range results {
				if v.sameKey {
					break
				}
				key := fmt.Sprintf("k%d", i)
				g, err := db.Get(&proto.GetRequest{Key: key, IncludeValue: true})
				if err != nil || g.Status != proto.Status_OK {
					fail(s, "acked-write-missing", fmt.Sprintf("acknowledged put of %s is not in the DB: %v %v", key, g, err))
					continue
				}
				if g.Version.VersionId != r.resp.Puts[0].Version.VersionId || string(g.Value) != fmt.Sprintf("v%d", i) {
					fail(s, "response-mismatch", fmt.Sprintf("writer %d got version %d but the DB holds version %d value %q", i, r.resp.Puts[0].Version.VersionId, g.Version.VersionId, g.Value))
				}
				if seenVer[g.Version.VersionId] {
					fail(s, "duplicate-offset", fmt.Sprintf("two writes share version/offset %d", g.Version.VersionId))
				}
				seenVer[g.Version.VersionId] = true
			}
			// log content: offsets 0..n-1, each a distinct request
			rd, err := w.NewReader(-1)
			if err == nil {
				next := int64(0)
				for rd.HasNext() {
					e, err := rd.ReadNext()
					if err != nil {
						fail(s, "wal-read", err.Error())
						break
					}
					if e.Offset != next {
						fail(s, "wal-not-contiguous", fmt.Sprintf("wal entry offset %d expected %d", e.Offset, next))
					}
					next++
				}
				_ = rd.Close()
			}
		}
		if v.cancel {
			// every committed entry must be applied on the leader, whoever stopped waiting for it
			_, appended2, _ := wal.VerifPeekOffsets(w)
			db := server.VerifLeaderDB(lc)
			dbCommit, _ := db.ReadCommitOffset()
			if commit == appended2 && dbCommit != commit {
				fail(s, "committed-entry-not-applied", fmt.Sprintf("commit offset is %d but the leader's database has only applied up to %d", commit, dbCommit))
			}
		}
		// the leader's state is what the log says: a read served now returns the write with the
		// highest offset, and the whole database equals the fold of the committed log
		if commit == appended && commit >= 0 {
			var entries []*proto.LogEntry
			if rd, err := w.NewReader(-1); err == nil {
				for rd.HasNext() {
					e, err := rd.ReadNext()
					if err != nil {
						break
					}
					entries = append(entries, e)
				}
				_ = rd.Close()
			}
			if d := oxc.FoldDiffers("ns", 1, server.VerifLeaderDB(lc), entries, commit); d != "" {
				fail(s, "leader-state-not-fold-of-log", fmt.Sprintf("leader database after %d acknowledged writes differs from applying log entries 0..%d in order:\n %s", okCount, commit, d))
			}
		}
		// effects applied in offset order, exactly once
		for _, seq := range kvf.CommitSequences() {
			if msg := oxc.CheckSequential(seq, -1); msg != "" {
				fail(s, "apply-out-of-order", msg)
			}
		}
		sort.Strings(outcome)
		s.Data = strings.Join(outcome, ",") + fmt.Sprintf("|head=%d commit=%d", head, commit)
		_ = lc.Close()
	}
}

// followerBody: a real follower controller that lags behind: the (scripted) leader sends n entries
// whose advertised commit offset is already at or beyond them, so the follower's apply rounds run
// concurrently with further appends and syncs. At quiescence the follower's database must be the
// fold of log entries 0..c for its stored commit offset c, written one offset at a time.
func followerBody(n int, commitAhead int64, syncData bool) func(s *vsched.Sched) {
	return func(s *vsched.Sched) {
		s.Explore(false)
		env := oxc.NewEnv(s)
		net := oxc.NewNet()
		kvf := oxc.NewObsFactory(env.Dir)
		fc, err := server.NewFollowerController(server.Config{NotificationsRetentionTime: time.Hour}, "ns", 1, env.WalFactory("n2", 64*1024, syncData), kvf)
		if err != nil {
			fail(s, "harness-setup", err.Error())
			return
		}
		net.Peers["n2"] = fc
		if _, err := fc.NewTerm(&proto.NewTermRequest{Namespace: "ns", Shard: 1, Term: 1, Options: &proto.NewTermOptions{EnableNotifications: true}}); err != nil {
			fail(s, "harness-setup", err.Error())
			return
		}
		stream, err := net.GetReplicateStream(context.Background(), "n2", "ns", 1, 1)
		if err != nil {
			fail(s, "harness-setup", err.Error())
			return
		}
		var entries []*proto.LogEntry
		for i := 0; i < n; i++ {
			lev := &proto.LogEntryValue{Value: &proto.LogEntryValue_Requests{Requests: &proto.WriteRequests{Writes: []*proto.WriteRequest{
				{Shard: oxh.I64(1), Puts: []*proto.PutRequest{{Key: fmt.Sprintf("k%d", i%2), Value: []byte(fmt.Sprintf("v%d", i))}}}}}}}
			b, _ := lev.MarshalVT()
			entries = append(entries, &proto.LogEntry{Term: 1, Offset: int64(i), Value: b, Timestamp: uint64(1000 + i)})
		}
		s.Settle()
		// the requests are already in flight when exploration starts (no sender thread: fewer
		// scheduling points, same behaviours of the follower's own threads)
		for i, le := range entries {
			c := int64(i) + commitAhead
			if c > int64(n-1) {
				c = int64(n - 1)
			}
			if err := stream.Send(&proto.Append{Term: 1, Entry: le, CommitOffset: c}); err != nil {
				fail(s, "harness-setup", err.Error())
				return
			}
		}
		s.Explore(true)
		s.Settle()
		s.Explore(false)
		var acks []int64
		vsched.Go(func() {
			for {
				a, err := stream.Recv()
				if err != nil {
					return
				}
				acks = append(acks, a.Offset)
			}
		})
		s.Settle()
		db := server.VerifFollowerDB(fc)
		c, err := db.ReadCommitOffset()
		if err != nil {
			fail(s, "harness-setup", err.Error())
			return
		}
		adv := int64(n-1) + commitAhead // highest commit offset the leader advertised
		if adv > int64(n-1) {
			adv = int64(n - 1)
		}
		if len(acks) == n && c != adv {
			fail(s, "committed-entry-not-applied", fmt.Sprintf("the follower acknowledged all %d entries, the leader advertised commit offset %d, but its database has applied up to %d", n, adv, c))
		}
		if d := oxc.FoldDiffers("ns", 1, db, entries, c); d != "" {
			fail(s, "follower-state-not-fold-of-log", fmt.Sprintf("follower database (stored commit offset %d) differs from applying entries 0..%d in order:\n %s", c, c, d))
		}
		for _, seq := range kvf.CommitSequences() {
			if msg := oxc.CheckSequential(seq, -1); msg != "" {
				fail(s, "apply-out-of-order", "follower: "+msg)
			}
		}
		s.Data = fmt.Sprintf("acks=%v commit=%d", acks, c)
		_ = fc.Close()
	}
}

func coarse(k vsched.Kind, obj uint64) bool {
	switch k {
	case vsched.KLock, vsched.KRLock, vsched.KAtomic, vsched.KWait, vsched.KCond, vsched.KClose:
		return false
	}
	return true
}

var monitor func(s *vsched.Sched)

func cfg() vsched.Config {
	return vsched.Config{MaxSteps: 20000, OnPoint: func(s *vsched.Sched) {
		if monitor != nil {
			monitor(s)
		}
	}}
}

func scenarios(tier string) []sched.Scenario {
	var vs []struct {
		v   variant
		dev int
	}
	add := func(v variant, dev int) {
		vs = append(vs, struct {
			v   variant
			dev int
		}{v, dev})
	}
	if tier == "thorough" {
		add(variant{name: "rf3-2writers-sync", writers: 2, rf: 3, syncData: true, perW: 1}, 3)
		add(variant{name: "rf3-2writers-nosync", writers: 2, rf: 3, perW: 1}, 3)
		add(variant{name: "rf3-1live-follower-sync", writers: 2, rf: 3, syncData: true, mute: 1, perW: 1}, 3)
		add(variant{name: "rf3-dupacks-sync", writers: 2, rf: 3, syncData: true, dup: true, perW: 1}, 2)
		add(variant{name: "rf5-2writers-sync", writers: 2, rf: 5, syncData: true, perW: 1}, 2)
		add(variant{name: "rf5-2mute-sync", writers: 2, rf: 5, syncData: true, mute: 2, perW: 1}, 2)
		add(variant{name: "rf3-3writers-sync", writers: 3, rf: 3, syncData: true, perW: 1}, 2)
		add(variant{name: "rf3-2x2writes-sync", writers: 2, rf: 3, syncData: true, perW: 2}, 2)
		add(variant{name: "rf3-2writers-one-cancelled", writers: 2, rf: 3, syncData: true, perW: 1, cancel: true}, 3)
		add(variant{name: "rf3-2writers-same-key", writers: 2, rf: 3, syncData: true, perW: 1, sameKey: true}, 3)
		add(variant{name: "rf3-3writers-same-key", writers: 3, rf: 3, syncData: true, perW: 1, sameKey: true}, 2)
		add(variant{name: "rf3-2writers-fenced", writers: 2, rf: 3, syncData: true, perW: 1, fence: true}, 3)
		add(variant{name: "rf3-2x2writes-small-segments", writers: 2, rf: 3, syncData: true, perW: 2, seg: 100}, 2)
	} else {
		add(variant{name: "rf3-2writers-sync", writers: 2, rf: 3, syncData: true, perW: 1}, 2)
		add(variant{name: "rf3-2writers-nosync", writers: 2, rf: 3, perW: 1}, 2)
		add(variant{name: "rf3-1live-follower-sync", writers: 2, rf: 3, syncData: true, mute: 1, perW: 1}, 2)
		add(variant{name: "rf5-2mute-sync", writers: 2, rf: 5, syncData: true, mute: 2, perW: 1}, 1)
		add(variant{name: "rf3-3writers-sync", writers: 3, rf: 3, syncData: true, perW: 1}, 1)
		add(variant{name: "rf3-2writers-one-cancelled", writers: 2, rf: 3, syncData: true, perW: 1, cancel: true}, 2)
		add(variant{name: "rf3-2writers-same-key", writers: 2, rf: 3, syncData: true, perW: 1, sameKey: true}, 2)
		add(variant{name: "rf3-2writers-fenced", writers: 2, rf: 3, syncData: true, perW: 1, fence: true}, 2)
		add(variant{name: "rf3-2x2writes-small-segments", writers: 2, rf: 3, syncData: true, perW: 2, seg: 100}, 1)
	}
	if onlySameKey {
		var f []struct {
			v   variant
			dev int
		}
		for _, x := range vs {
			if x.v.sameKey || x.v.cancel || (x.v.rf >= 5 && onlySameKeyPlusRF5) {
				f = append(f, x)
			}
		}
		vs = f
	}
	var out []sched.Scenario
	for _, x := range vs {
		c := cfg()
		if x.v.fence {
			// the fencing race is between whole callbacks, acks and RPCs: preempt at channel / stream
			// operations, selects and thread starts only (as the cluster harness does), which buys depth
			c.Filter = coarse
		}
		out = append(out, sched.Scenario{Name: x.v.name, Cfg: c, MaxDev: x.dev, Body: body(x.v)})
	}
	if ExtraLeader != nil {
		out = append(out, ExtraLeader(tier)...)
	}
	if !withFollower {
		return out
	}
	if Extra != nil {
		out = append(out, Extra(tier)...)
	}
	fd := 2
	if tier == "thorough" {
		fd = 3
		out = append(out, sched.Scenario{Name: "follower-4appends-commit-ahead", Cfg: cfg(), MaxDev: 2, Body: followerBody(4, 2, true)})
	}
	// the most expensive scenario goes last: it inherits the budget the others did not use
	out = append(out, sched.Scenario{Name: "follower-3appends-commit-ahead", Cfg: cfg(), MaxDev: fd, Body: followerBody(3, 2, true)},
		sched.Scenario{Name: "follower-3appends-commit-lagging", Cfg: cfg(), MaxDev: fd, Body: followerBody(3, -1, true)},
		sched.Scenario{Name: "follower-2appends-commit-ahead", Cfg: cfg(), MaxDev: fd + 1, Body: followerBody(2, 2, true)})
	return out
}

// ScenariosFor returns the colliding-writers scenarios of the leader write pipeline for use inside another
// suite; only the failure keys in keep count.
func ScenariosFor(tier string, keep map[string]bool) []sched.Scenario {
	keepKeys = keep
	onlySameKey = true
	withFollower = false
	return scenarios(tier)
}

// Main runs the suite for a property. keep selects the failure keys that count for that
// property (nil = all of them).
func Main(property string, stage2 bool, keep map[string]bool, rule string) int {
	replay := flag.String("replay", "", "replay file")
	flag.Parse()
	oxh.Quiet()
	keepKeys = keep
	withFollower = property == "C07"
	onlySameKey = property == "C02"
	onlySameKeyPlusRF5 = property == "C02"
	if rule == "" {
		rule = "every schedule of the harness threads (writers, WAL sync thread, follower cursors, ack receivers, scripted followers) with at most max_dev non-default scheduling choices, each run once on the real leader controller; an execution is non-trivial when it deviates from the default schedule at least once"
	}
	su := sched.Suite{Property: property, Scenarios: scenarios, Stage2: stage2,
		Budget: func(tier string) time.Duration {
			if tier == "thorough" {
				return 25 * time.Minute
			}
			return 100 * time.Second
		},
		Rule: rule,
		Assume: []string{"sequentially consistent memory (data races are outside a cooperative scheduler)", "followers are scripted: they acknowledge every append in order",
			"scheduling points: lock acquisition, atomics, channel operations, select, waits; deviation (delay) bounded"}}
	return sched.Main(su, *replay)
}

// Extra: further scenarios of the follower side, run before the apply-loop scenarios (C07 only).
var Extra func(tier string) []sched.Scenario

// ExtraLeader: further scenarios on the leader side, supplied by the harness of one property.
var ExtraLeader func(tier string) []sched.Scenario

var keepKeys map[string]bool

// withFollower adds the follower apply-loop scenarios (they belong to C07, not to C08)
var withFollower bool

// onlySameKey restricts the suite to the colliding-writers variants and the abandoned-write variant (schedule
// stages of C02 and C06: what the leader serves must be the fold of its committed log, also for a write whose
// client stopped waiting)
var onlySameKey bool

// onlySameKeyPlusRF5: C02 also runs the replication-factor-5 variants (a write is answered only once a quorum of
// followers has acknowledged its entry; with RF 3 one follower is the quorum)
var onlySameKeyPlusRF5 bool

// fail reports a failure unless the property being decided does not include that key.
func fail(s *vsched.Sched, key, msg string) {
	if keepKeys != nil && !keepKeys[key] {
		return
	}
	s.Fail(key, msg)
}
