#!/usr/bin/env python3
"""crash2viol.py <ID> <stderr-log> <tier>: a harness process died. If the Go runtime report shows
that it died inside the code under test (the topmost frame that belongs to either the repository
or the harness is a repository frame), that is a violation of the property being checked (the
implementation crashed on an explored input/schedule), not an infrastructure error:
write a replay artefact + minimal evidence, print the VIOLATION line, exit 0. Otherwise exit 1."""
import json, os, re, sys, time

pid_full, log, tier = sys.argv[1], sys.argv[2], sys.argv[3]
pid = pid_full[:-1] if pid_full[-1] in 'SFNLWP' and len(pid_full) == 4 else pid_full
root = os.environ.get('VERIF_ROOT', os.path.dirname(os.path.dirname(os.path.abspath(__file__))))
try:
    lines = open(log, errors='replace').read().splitlines()
except OSError:
    sys.exit(1)
start = None
for i, l in enumerate(lines):
    if l.startswith('fatal error: ') or l.startswith('panic: ') or l.startswith('unexpected fault address') or 'unexpected signal' in l:
        start = i
        break
if start is None:
    sys.exit(1)
reason = lines[start].strip()
if 'out of memory' in reason or 'all goroutines are asleep' in reason:
    sys.exit(1)
# frames of the crashing goroutine: from the first "goroutine N [running" after the reason
frames = []
j = start
while j < len(lines) and not re.match(r'^goroutine \d+ .*\[running', lines[j]):
    j += 1
j += 1
while j < len(lines) and lines[j].strip() != '':
    m = re.match(r'^([A-Za-z0-9_./\-]+(?:\.\(\*?[A-Za-z0-9_\[\].,*]+\))?\.[A-Za-z0-9_.\-\[\]]+)\(', lines[j])
    if m:
        frames.append(m.group(1))
    j += 1
top = None
for f in frames:
    if f.startswith('github.com/oxia-db/oxia/zzverif/'):
        continue
    if f.startswith('github.com/oxia-db/oxia/'):
        top = f
        break
    if f.startswith('verif/') or f.startswith('main.'):
        break
if top is None:
    sys.exit(1)
key = 'crash:' + top.replace('github.com/oxia-db/oxia/', '')
os.makedirs(os.path.join(root, 'replays'), exist_ok=True)
rp = os.path.join(root, 'replays', f'{pid}-crash.json')
excerpt = lines[start:min(len(lines), start + 60)]
json.dump({'first': {'key': key, 'harness': pid_full, 'message': reason, 'stack': excerpt}}, open(rp, 'w'), indent=1)
evp = os.path.join(root, 'evidence', f'{pid}.json')
json.dump({'property_id': pid, 'tier': tier if tier in ('quick', 'thorough') else 'quick', 'seed': int(os.environ.get('VERIF_SEED', '0') or 0),
           'level': 'other', 'wall_s': 0.0, 'violations': 1,
           'coverage': {'evaluations': 0, 'distinct_nontrivial': 0, 'exhaustive': False,
                        'rule': 'the harness process died inside the code under test before it could report; the Go runtime crash report is the evidence',
                        'samples': [{'key': key, 'reason': reason, 'top_frames': frames[:12]}]}}, open(evp, 'w'), indent=1)
print(f'VIOLATION property={pid} replay={rp}')
print(f'  key={key} harness={pid_full}: the implementation crashed ({reason}); top frames: {" <- ".join(frames[:6])}')
sys.exit(0)
