// Package ffsm model-checks the follower controller as a protocol state machine: every sequence of
// protocol events up to a depth (new-term requests with the current / a higher / a stale term,
// appends of the current and of a stale term, a re-sent old entry, truncation and its re-delivery,
// a complete / an interrupted / a stale-term snapshot transfer, graceful restart, process crash)
// is replayed from scratch on a real followerController (real WAL, real Pebble on a real
// directory) under the cooperative scheduler with its default schedule, and the node-side
// clauses of C03, C04, C05 (and the fold clause of C07) are evaluated after every event against
// a list model of what a correct follower holds.
//
// Explicit-state search without state merging: every event sequence up to the depth is run
// (sequences whose last event is not applicable in the reached state are pruned), sharded over
// worker processes by their first two events.
package ffsm

import (
	"context"
	"encoding/json"
	"flag"
	"fmt"
	"io"
	"os"
	"os/exec"
	"path/filepath"
	"sort"
	"strings"
	"sync"
	"time"

	time2 "github.com/oxia-db/oxia/common/time"
	"github.com/oxia-db/oxia/proto"
	"github.com/oxia-db/oxia/server"
	"github.com/oxia-db/oxia/server/kv"
	"github.com/oxia-db/oxia/server/wal"
	"github.com/oxia-db/oxia/zzverif/vsched"

	"verif/lib/ev"
	"verif/lib/oxc"
	"verif/lib/oxh"
)

const (
	opNewTermSame = iota
	opNewTermNext
	opNewTermStale
	opAppendNext
	opAppendStaleNew
	opAppendStaleDup
	opTruncate
	opTruncateAgain
	opSnapshotOK
	opSnapshotBroken
	opSnapshotStale
	opRestart
	opCrash
	opTruncateBeyond
	opAppendGap
	nOps
)

var opNames = []string{"NewTerm(same)", "NewTerm(+1)", "NewTerm(stale)", "Append(next,term)", "Append(next,stale term)", "Append(re-sent,stale term)",
	"Truncate(last-1)", "Truncate(re-delivered)", "Snapshot(complete)", "Snapshot(interrupted)", "Snapshot(stale term)", "Restart", "Crash", "Truncate(beyond the end)", "Append(next+1,term)"}

type mentry struct {
	term int64
	id   int
}

type fail struct {
	Key string `json:"key"`
	Msg string `json:"msg"`
}

type outcome struct {
	Applicable bool   `json:"applicable"`
	Fails      []fail `json:"fails"`
	Sig        string `json:"sig"`
}

const ns, shard = "ns", int64(1)

func value(id int) []byte {
	lev := &proto.LogEntryValue{Value: &proto.LogEntryValue_Requests{Requests: &proto.WriteRequests{Writes: []*proto.WriteRequest{
		{Shard: oxh.I64(shard), Puts: []*proto.PutRequest{{Key: fmt.Sprintf("k%d", id%3), Value: []byte(fmt.Sprintf("v%d", id))}}}}}}}
	b, _ := lev.MarshalVT()
	return b
}

type node struct {
	s    *vsched.Sched
	dir  string
	gen  int
	net  *oxc.Net
	fc   server.FollowerController
	kvf  kv.Factory
	walf wal.Factory
	grp  int
	// model
	ackTerm   int64            // highest term a NewTerm was answered for
	leadTerm  int64            // term of the leader that last attached (stream / truncate / snapshot)
	hist      map[int64]mentry // every entry the follower should hold or have applied, by offset
	first     int64            // first offset the log (not the snapshot) holds
	last      int64            // last offset the follower should hold
	ackedFrom map[int64]int64  // offset -> term of the stream it was acknowledged on
	// ackedSinceFence: offsets acknowledged since the node last answered a NewTerm
	ackedSinceFence map[int64]bool
	nextID          int
	stream          proto.OxiaLogReplication_ReplicateClient
	sterm           int64
	acks            *[]int64
	lastTrunc       *proto.TruncateRequest
	fails           []fail
	// brokenSnapshot: an interrupted snapshot transfer has wiped the node
	brokenSnapshot bool
	abandoned      []func()
}

func (n *node) failf(key, f string, a ...any) {
	for _, x := range n.fails {
		if x.Key == key {
			return
		}
	}
	n.fails = append(n.fails, fail{key, fmt.Sprintf(f, a...)})
}

func (n *node) open() error {
	n.gen++
	n.grp = 100 + n.gen
	prev := n.s.Cur().Group
	n.s.SetGroup(n.grp)
	defer n.s.SetGroup(prev)
	pf, err := kv.NewPebbleKVFactory(&kv.FactoryOptions{DataDir: filepath.Join(n.dir, "db"), CacheSizeMB: 1})
	if err != nil {
		return err
	}
	n.kvf = pf
	n.walf = wal.NewWalFactory(&wal.FactoryOptions{BaseWalDir: filepath.Join(n.dir, "wal"), Retention: time.Hour, SegmentSize: 64 * 1024, SyncData: true})
	fc, err := server.NewFollowerController(server.Config{NotificationsRetentionTime: time.Hour}, ns, shard, n.walf, n.kvf)
	if err != nil {
		return err
	}
	n.fc = fc
	n.net.Peers["n2"] = fc
	n.stream, n.acks = nil, nil
	return nil
}

func copyDir(src, dst string) error {
	return filepath.Walk(src, func(p string, info os.FileInfo, err error) error {
		if err != nil {
			return nil // files may vanish while the engine works: a crash image is what is there
		}
		rel, _ := filepath.Rel(src, p)
		t := filepath.Join(dst, rel)
		if info.IsDir() {
			return os.MkdirAll(t, 0o755)
		}
		if info.Name() == "LOCK" {
			return nil
		}
		in, err := os.Open(p)
		if err != nil {
			return nil
		}
		defer in.Close()
		out, err := os.Create(t)
		if err != nil {
			return err
		}
		defer out.Close()
		_, err = io.Copy(out, in)
		return err
	})
}

func (n *node) term() int64 {
	st, err := n.fc.GetStatus(&proto.GetStatusRequest{Shard: shard})
	if err != nil {
		return -99
	}
	return st.Term
}

func (n *node) walLast() (int64, int64) {
	w := server.VerifFollowerWal(n.fc)
	lo := w.LastOffset()
	if lo < 0 {
		return -1, -1
	}
	rd, err := w.NewReverseReader()
	if err != nil {
		return -1, lo
	}
	defer rd.Close()
	if rd.HasNext() {
		if e, err := rd.ReadNext(); err == nil {
			return e.Term, e.Offset
		}
	}
	return -1, lo
}

func (n *node) ensureStream(term int64) bool {
	if n.stream != nil && n.sterm == term && n.stream.Context().Err() == nil {
		return true
	}
	st, err := n.net.Provider().GetReplicateStream(context.Background(), "n2", ns, shard, term)
	if err != nil {
		return false
	}
	acks := &[]int64{}
	n.stream, n.sterm, n.acks = st, term, acks
	vsched.Go(func() {
		for {
			a, err := st.Recv()
			if err != nil {
				return
			}
			*acks = append(*acks, a.Offset)
		}
	})
	return true
}

// donor builds the database a leader would snapshot: the fold of the history up to `upTo`.
func (n *node) snapshotChunks(upTo int64, term int64) ([]*proto.SnapshotChunk, error) {
	dir := filepath.Join(n.dir, fmt.Sprintf("donor-%d", n.nextID))
	pf, err := kv.NewPebbleKVFactory(&kv.FactoryOptions{DataDir: dir, CacheSizeMB: 1})
	if err != nil {
		return nil, err
	}
	defer pf.Close()
	db, err := kv.NewDB(ns, shard, pf, time.Hour, time2.SystemClock)
	if err != nil {
		return nil, err
	}
	defer db.Close()
	if err := db.UpdateTerm(term, kv.TermOptions{NotificationsEnabled: true}); err != nil {
		return nil, err
	}
	for o := int64(0); o <= upTo; o++ {
		e := n.hist[o]
		lev := &proto.LogEntryValue{}
		_ = lev.UnmarshalVT(value(e.id))
		for _, w := range lev.GetRequests().GetWrites() {
			if _, err := db.ProcessWrite(w, o, uint64(1000+o), server.WrapperUpdateOperationCallback); err != nil {
				return nil, err
			}
		}
	}
	sn, err := db.Snapshot()
	if err != nil {
		return nil, err
	}
	defer sn.Close()
	var out []*proto.SnapshotChunk
	for ; sn.Valid(); sn.Next() {
		c, err := sn.Chunk()
		if err != nil {
			return nil, err
		}
		out = append(out, &proto.SnapshotChunk{Term: term, Name: c.Name(), Content: append([]byte{}, c.Content()...), ChunkIndex: c.Index(), ChunkCount: c.TotalCount()})
	}
	return out, nil
}

func (n *node) step(op int) bool {
	s := n.s
	// threads started while an event is served (stream handlers, the database a snapshot installs with its
	// background threads) belong to the node: a crash takes them down with it
	prevGrp := s.Cur().Group
	s.SetGroup(n.grp)
	defer s.SetGroup(prevGrp)
	switch op {
	case opNewTermSame, opNewTermNext, opNewTermStale:
		t := n.ackTerm
		if op == opNewTermNext {
			t = n.ackTerm + 1
		} else if op == opNewTermStale {
			t = n.ackTerm - 1
			if t < 0 {
				return false
			}
		}
		if t < 0 {
			return false
		}
		wt, wo := n.walLast()
		resp, err := n.fc.NewTerm(&proto.NewTermRequest{Namespace: ns, Shard: shard, Term: t, Options: &proto.NewTermOptions{EnableNotifications: true}})
		s.Settle()
		if op == opNewTermStale {
			if err == nil {
				n.failf("stale-newterm-accepted", "NewTerm(%d) accepted by a node that had answered NewTerm(%d)", t, n.ackTerm)
			}
			return true
		}
		if err != nil {
			// a duplicate NewTerm of the current term is refused once the node follows a leader of that term: legitimate
			return op == opNewTermSame
		}
		n.ackTerm = t
		n.ackedSinceFence = map[int64]bool{}
		if op == opNewTermNext {
			n.leadTerm = -1
		}
		h := resp.HeadEntryId
		_, wo2 := n.walLast()
		if h.Offset != wo2 || (wo >= 0 && wo == wo2 && h.Term != wt) {
			n.failf("reported-head-not-log-end", "NewTerm(%d) answered head (%d,%d) but the log ends at (%d,%d)", t, h.Term, h.Offset, wt, wo2)
		}
	case opAppendNext:
		if n.ackTerm < 0 {
			return false
		}
		// (after an interrupted transfer the node is empty and reports an empty log: a leader either sends a
		// snapshot again or, when it has committed nothing itself yet, streams its log from offset 0)
		if !n.ensureStream(n.ackTerm) {
			return false
		}
		off := n.last + 1
		n.nextID++
		e := mentry{n.ackTerm, n.nextID}
		before := len(*n.acks)
		if err := n.stream.Send(&proto.Append{Term: n.ackTerm, Entry: &proto.LogEntry{Term: e.term, Offset: off, Value: value(e.id), Timestamp: uint64(1000 + off)}, CommitOffset: n.last}); err != nil {
			return true
		}
		s.Settle()
		if len(*n.acks) > before {
			n.brokenSnapshot = false
			if off == 0 {
				n.first = 0
			}
			n.hist[off] = e
			n.last = off
			n.ackedFrom[off] = n.ackTerm
			n.ackedSinceFence[off] = true
			n.leadTerm = n.ackTerm
		} else if n.stream.Context().Err() == nil {
			// not acknowledged and the stream is alive: the follower holds it or not; keep the model in step
			if _, wo := n.walLast(); wo == off {
				n.hist[off] = e
				n.last = off
			}
		}
	case opAppendStaleNew, opAppendStaleDup:
		t := n.ackTerm - 1
		if t < 0 {
			return false
		}
		off := n.last + 1
		if op == opAppendStaleDup {
			off = n.last
			if off < n.first || off < 0 {
				return false
			}
		}
		st, err := n.net.Provider().GetReplicateStream(context.Background(), "n2", ns, shard, t)
		if err != nil {
			return true
		}
		var late []int64
		vsched.Go(func() {
			for {
				a, err := st.Recv()
				if err != nil {
					return
				}
				late = append(late, a.Offset)
			}
		})
		id := 9000 + n.nextID
		if op == opAppendStaleDup {
			id = n.hist[off].id
		}
		_ = st.Send(&proto.Append{Term: t, Entry: &proto.LogEntry{Term: t, Offset: off, Value: value(id), Timestamp: uint64(1000 + off)}, CommitOffset: -1})
		s.Settle()
		if len(late) > 0 {
			n.failf("old-term-ack-after-fence", "a node that answered NewTerm(%d) acknowledged offsets %v on a term-%d stream", n.ackTerm, late, t)
		}
		if _, wo := n.walLast(); wo > n.last {
			n.failf("old-term-append-stored", "a node that answered NewTerm(%d) stored offset %d from a term-%d leader", n.ackTerm, wo, t)
		}
		_ = st.CloseSend()
	case opTruncate, opTruncateAgain:
		var req *proto.TruncateRequest
		if op == opTruncate {
			if n.ackTerm < 0 || n.last-1 < n.first || n.last < 1 {
				return false
			}
			to := n.last - 1
			// committed entries are on a majority and in every later leader's log: no leader truncates a
			// follower below what that follower has already applied
			if db := server.VerifFollowerDB(n.fc); db != nil {
				if c, err := db.ReadCommitOffset(); err == nil && c > to {
					return false
				}
			}
			// a leader truncates a follower before it streams to it: never below what that follower
			// has acknowledged to this very leader
			for o, t := range n.ackedFrom {
				if t == n.ackTerm && o > to {
					return false
				}
			}
			req = &proto.TruncateRequest{Namespace: ns, Shard: shard, Term: n.ackTerm, HeadEntryId: &proto.EntryId{Term: n.hist[to].term, Offset: to}}
		} else {
			if n.lastTrunc == nil {
				return false
			}
			req = n.lastTrunc.CloneVT()
			// the same request served a second time: the transport delivers a call at most once, so this stands
			// for a retry by the same leader. It is kept while it can only cut entries that are not applied yet;
			// a leader that has since committed entries above the target has them in its log and does not ask
			// for their removal
			if db := server.VerifFollowerDB(n.fc); db != nil {
				if c, err := db.ReadCommitOffset(); err == nil && c > req.HeadEntryId.Offset {
					return false
				}
			}
		}
		// entries acknowledged to the leader of this term since the node was last fenced: a truncation
		// that removes them cannot come from that leader (it truncates a follower before it streams to it)
		ackedThisTerm := false
		for o, t := range n.ackedFrom {
			if t == req.Term && o > req.HeadEntryId.Offset && o <= n.last && n.ackedSinceFence[o] {
				ackedThisTerm = true
			}
		}
		_, err := n.fc.Truncate(req)
		s.Settle()
		if err == nil {
			if req.Term < n.ackTerm {
				n.failf("stale-truncate-accepted", "Truncate(term %d) accepted by a node that had answered NewTerm(%d)", req.Term, n.ackTerm)
			}
			if ackedThisTerm {
				n.failf("acked-entry-truncated", "Truncate(term %d, head %d) accepted although the node had acknowledged later offsets to the leader of that same term", req.Term, req.HeadEntryId.Offset)
			}
			// what an installed snapshot covers is not in the log: a (late) truncation below it cuts nothing there
			to := req.HeadEntryId.Offset
			if to < n.first-1 {
				to = n.first - 1
			}
			for o := to + 1; o <= n.last; o++ {
				delete(n.hist, o)
				delete(n.ackedFrom, o)
			}
			if to < n.last {
				n.last = to
			}
			n.leadTerm = req.Term
			n.stream = nil
		}
		if op == opTruncate {
			n.lastTrunc = req
		}
	case opAppendGap:
		// an entry of the current term that skips one offset (a leader resuming from a wrong position): the log
		// refuses it and the stream ends; nothing may be acknowledged, and what is sent afterwards is stored before
		// it is acknowledged. Only with entries in the log: an empty log (after a snapshot) takes any offset.
		if n.ackTerm < 0 || n.last < 0 || n.last < n.first || n.brokenSnapshot {
			return false
		}
		if _, wo := n.walLast(); wo != n.last {
			return false
		}
		if !n.ensureStream(n.ackTerm) {
			return false
		}
		off := n.last + 2
		n.nextID++
		before := len(*n.acks)
		if err := n.stream.Send(&proto.Append{Term: n.ackTerm, Entry: &proto.LogEntry{Term: n.ackTerm, Offset: off, Value: value(n.nextID), Timestamp: uint64(1000 + off)}, CommitOffset: n.last}); err != nil {
			return true
		}
		s.Settle()
		if len(*n.acks) > before {
			n.failf("acked-entry-not-stored", "Append(offset %d) on a log that ends at %d was acknowledged (%v): the entry cannot follow the log's last one", off, n.last, (*n.acks)[before:])
		}
	case opTruncateBeyond:
		// the leader of the current term names, as the point to truncate to, an entry beyond the end of this
		// node's log (its own log is longer and the node's tail is from a term it has never seen): the node does
		// not hold that entry and cannot claim to; answering OK would tell the leader that the node's log agrees
		// with its own up to the node's head
		if n.ackTerm < 0 || n.last < 0 || n.last < n.first || n.brokenSnapshot {
			return false
		}
		st, err := n.fc.GetStatus(&proto.GetStatusRequest{Shard: shard})
		if err != nil || st.Status != proto.ServingStatus_FENCED {
			return false
		}
		req := &proto.TruncateRequest{Namespace: ns, Shard: shard, Term: n.ackTerm, HeadEntryId: &proto.EntryId{Term: n.hist[n.last].term, Offset: n.last + 2}}
		resp, err := n.fc.Truncate(req)
		s.Settle()
		if err == nil {
			n.failf("truncate-to-entry-not-held-accepted", "Truncate(term %d, head (%d,%d)) answered OK with head %v by a node whose log ends at offset %d: it does not hold that entry", req.Term, req.HeadEntryId.Term, req.HeadEntryId.Offset, resp.GetHeadEntryId(), n.last)
		}
	case opSnapshotOK, opSnapshotBroken, opSnapshotStale:
		if n.ackTerm < 0 {
			return false
		}
		t := n.ackTerm
		if op == opSnapshotStale {
			t = n.ackTerm - 1
			if t < 0 {
				return false
			}
		}
		// a leader sends a snapshot instead of streaming entries: its replication stream, if any, is closed first
		if n.stream != nil {
			_ = n.stream.CloseSend()
			s.Settle()
			n.stream = nil
		}
		// the sending leader is two entries ahead of what this follower holds
		h2 := map[int64]mentry{}
		for k, v := range n.hist {
			h2[k] = v
		}
		upTo := n.last + 2
		for o := n.last + 1; o <= upTo; o++ {
			n.nextID++
			h2[o] = mentry{t, n.nextID}
		}
		saved := n.hist
		n.hist = h2
		chunks, err := n.snapshotChunks(upTo, t)
		n.hist = saved
		if err != nil {
			n.failf("harness-setup", "donor snapshot: %v", err)
			return true
		}
		_, woBefore := n.walLast()
		ctx, cancel := context.WithCancel(context.Background())
		cl, err := n.net.Provider().SendSnapshot(ctx, "n2", ns, shard, t)
		if err != nil {
			cancel()
			return true
		}
		var sendErr error
		for i, c := range chunks {
			if op == opSnapshotBroken && i == len(chunks)/2 {
				break
			}
			if sendErr = cl.Send(c); sendErr != nil {
				break
			}
		}
		var resp *proto.SnapshotResponse
		if op == opSnapshotBroken {
			cancel() // the connection drops in the middle of the transfer
			s.Settle()
		} else {
			resp, err = cl.CloseAndRecv()
			s.Settle()
			cancel()
		}
		switch op {
		case opSnapshotStale:
			if err == nil && resp != nil {
				n.failf("stale-snapshot-accepted", "a snapshot of the term-%d leader was installed on a node that had answered NewTerm(%d)", t, n.ackTerm)
			}
			if _, wo := n.walLast(); wo != woBefore {
				n.failf("stale-snapshot-changed-log", "a snapshot transfer of the term-%d leader changed the log of a node fenced at term %d: log end %d -> %d", t, n.ackTerm, woBefore, wo)
			}
		case opSnapshotOK:
			if err != nil || resp == nil {
				return true // refused (e.g. another stream attached): state must be unchanged, the oracles below decide
			}
			n.hist = h2
			n.brokenSnapshot = false
			n.first, n.last = upTo+1, upTo
			n.ackedFrom = map[int64]int64{}
			n.leadTerm = t
			n.stream = nil
			if resp.AckOffset != upTo {
				n.failf("snapshot-ack-offset", "snapshot up to offset %d acknowledged with offset %d", upTo, resp.AckOffset)
			}
		case opSnapshotBroken:
			// the node may have wiped its state: what it holds now is nothing (an interrupted transfer restarts from scratch)
			n.first, n.last = -1, -1
			n.hist = map[int64]mentry{}
			n.ackedFrom = map[int64]int64{}
			n.stream = nil
			n.brokenSnapshot = true
		}
	case opRestart, opCrash:
		if op == opRestart {
			_ = n.fc.Close()
			_ = n.walf.Close()
			_ = n.kvf.Close()
			s.Settle()
		} else {
			// process crash: the threads vanish; the storage engine is released without its orderly
			// shutdown (the controller's Close flushes the memtable, a crash does not: what Pebble only
			// holds in memory is lost, what was written to files - synced or not - stays)
			old := n.fc
			n.s.KillGroup(n.grp)
			func() {
				defer func() { _ = recover() }()
				if db := server.VerifFollowerDB(old); db != nil {
					_ = kv.VerifPebble(kv.VerifKV(db)).Close()
				}
			}()
			wal.VerifForceClose(server.VerifFollowerWal(old))
		}
		n.ackedSinceFence = map[int64]bool{} // a node comes back fenced
		if err := n.open(); err != nil {
			n.failf("restart-failed", "%s: the node does not come back: %v", opNames[op], err)
			return true
		}
		s.Settle()
	}
	return true
}

func (n *node) invariants(after string) {
	if n.fc == nil {
		return
	}
	if t := n.term(); t < n.ackTerm {
		n.failf("node-term-decreased", "after %s the node is at term %d although it had answered NewTerm(%d)", after, t, n.ackTerm)
	}
	w := server.VerifFollowerWal(n.fc)
	// every acknowledged offset is still stored, with the entry of the leader it was acknowledged to
	var offs []int64
	for o := range n.ackedFrom {
		offs = append(offs, o)
	}
	sort.Slice(offs, func(i, j int) bool { return offs[i] < offs[j] })
	for _, o := range offs {
		if o < n.first || o > n.last {
			continue
		}
		want := n.hist[o]
		rd, err := w.NewReader(o - 1)
		ok := false
		if err == nil {
			if rd.HasNext() {
				if e, err := rd.ReadNext(); err == nil && e.Offset == o && e.Term == want.term && string(e.Value) == string(value(want.id)) {
					ok = true
				}
			}
			_ = rd.Close()
		}
		if !ok {
			n.failf("acked-entry-not-stored", "after %s offset %d (acknowledged to the term-%d leader) is no longer stored with that leader's entry; log end %d", after, o, n.ackedFrom[o], w.LastOffset())
			break
		}
	}
	// the database is the fold of the history up to its commit offset, and is not ahead of log + snapshot
	db := server.VerifFollowerDB(n.fc)
	if db == nil {
		return
	}
	c, err := db.ReadCommitOffset()
	if err != nil {
		return
	}
	if c > n.last {
		n.failf("commit-offset-ahead-of-log", "after %s the database records commit offset %d, the node holds nothing beyond offset %d", after, c, n.last)
		return
	}
	var entries []*proto.LogEntry
	for o := int64(0); o <= c; o++ {
		e, ok := n.hist[o]
		if !ok {
			return
		}
		entries = append(entries, &proto.LogEntry{Term: e.term, Offset: o, Value: value(e.id), Timestamp: uint64(1000 + o)})
	}
	if d := oxc.FoldDiffers(ns, shard, db, entries, c); d != "" {
		n.failf("state-not-fold-of-log", "after %s the database (commit offset %d) differs from applying entries 0..%d in order:\n %s", after, c, c, d)
	}
}

// Prefix: events run before every sequence (a non-initial start state); they are not part of the depth.
var Prefix []int

// body runs one event sequence.
func body(seq []int, out *outcome) func(s *vsched.Sched) {
	return func(s *vsched.Sched) {
		s.Explore(false)
		env := oxc.NewEnv(s)
		n := &node{s: s, dir: filepath.Join(env.Dir, "n2"), net: oxc.NewNet(), ackTerm: -1, leadTerm: -1, hist: map[int64]mentry{}, first: 0, last: -1, ackedFrom: map[int64]int64{}, ackedSinceFence: map[int64]bool{}}
		s.OnEnd(func(vsched.Outcome) {
			for _, f := range n.abandoned {
				func() { defer func() { _ = recover() }(); f() }()
			}
		})
		// the live controller is closed inside the execution, while its threads can still run
		defer func() {
			if n.fc != nil {
				_ = n.fc.Close()
				s.Settle()
				_ = n.walf.Close()
				_ = n.kvf.Close()
			}
		}()
		if err := n.open(); err != nil {
			out.Fails = append(out.Fails, fail{"harness-setup", err.Error()})
			return
		}
		s.Settle()
		for _, op := range Prefix {
			if !n.step(op) || len(n.fails) > 0 {
				out.Fails = append(n.fails, fail{"harness-setup", "cannot build the start state"})
				return
			}
		}
		out.Applicable = true
		for i, op := range seq {
			ok := n.step(op)
			if !ok {
				if i == len(seq)-1 {
					out.Applicable = false
				}
				return
			}
			n.invariants(opNames[op])
			if len(n.fails) > 0 {
				break
			}
		}
		out.Fails = n.fails
		t, lo := n.walLast()
		out.Sig = fmt.Sprintf("term=%d ack=%d log=(%d,%d) model=[%d,%d]", n.term(), n.ackTerm, t, lo, n.first, n.last)
	}
}

func runSeq(seq []int) outcome {
	var out outcome
	cfg := vsched.Config{MaxSteps: 400000, MaxTime: int64(10 * time.Minute)}
	x := vsched.RunOne(&cfg, nil, nil, body(seq, &out))
	if x.Panic != "" {
		out.Fails = append(out.Fails, fail{"panic", x.Panic})
	}
	for _, f := range x.Fails {
		out.Fails = append(out.Fails, fail{f.Key, f.Msg})
	}
	return out
}

type wresult struct {
	Runs       int64            `json:"runs"`
	Applicable int64            `json:"applicable"`
	ByDepth    map[int]int64    `json:"by_depth"`
	Sigs       map[string]int64 `json:"sigs"`
	Fails      map[string][]any `json:"fails"` // key -> [seq, msg, count]
	Cut        bool             `json:"cut"`
	Completed  int              `json:"completed"`
}

func names(seq []int) []string {
	var o []string
	for _, x := range seq {
		o = append(o, opNames[x])
	}
	return o
}

// worker runs iterative deepening: every sequence up to depths[0], then up to depths[1], ... so that a
// deadline cuts the deepest level only (shorter sequences are re-run as prefixes, counted once).
func worker(idx, nw int, depths []int, ops []int, deadline time.Time, keep map[string]bool) wresult {
	r := wresult{ByDepth: map[int]int64{}, Sigs: map[string]int64{}, Fails: map[string][]any{}, Completed: 0}
	prev := 0
	for _, depth := range depths {
		cutBefore := r.Cut
		workerPass(&r, idx, nw, prev, depth, ops, deadline, keep)
		if !r.Cut && !cutBefore {
			r.Completed = depth
		}
		prev = depth
		if r.Cut {
			break
		}
	}
	return r
}

func workerPass(r *wresult, idx, nw, prev, depth int, ops []int, deadline time.Time, keep map[string]bool) {
	var rec func(seq []int)
	rec = func(seq []int) {
		if time.Now().After(deadline) {
			r.Cut = true
			return
		}
		if len(seq) == 2 && (seq[0]*nOps+seq[1])%nw != idx {
			return
		}
		mine := (len(seq) >= 2 || idx == 0) && len(seq) > prev
		var o outcome
		o.Applicable = true
		if len(seq) > 0 {
			o = runSeq(seq)
			if mine {
				r.Runs++
			}
		}
		if !o.Applicable {
			return
		}
		if len(seq) > 0 && mine {
			r.Applicable++
			r.ByDepth[len(seq)]++
			if len(r.Sigs) < 4000 {
				r.Sigs[o.Sig]++
			}
			for _, f := range o.Fails {
				if keep != nil && !keep[f.Key] {
					continue
				}
				if cur, ok := r.Fails[f.Key]; !ok || len(cur[0].([]int)) > len(seq) {
					cnt := int64(0)
					if ok {
						cnt = cur[2].(int64)
					}
					r.Fails[f.Key] = []any{append([]int{}, seq...), f.Msg, cnt + 1}
				} else {
					cur[2] = cur[2].(int64) + 1
				}
			}
		}
		if len(o.Fails) > 0 || len(seq) >= depth {
			return
		}
		for _, op := range ops {
			rec(append(append([]int{}, seq...), op))
		}
	}
	rec(nil)
}

// Preloaded is the start state of the preloaded search: a follower that holds two entries of its leader and
// has applied the first.
func Preloaded() []int { return []int{opNewTermNext, opAppendNext, opAppendNext} }

// QuickDepth / ThoroughDepth: search depths (a harness with a preloaded start state lowers them).
var QuickDepth, ThoroughDepth = 5, 7

// Main runs the search for one property. keep selects the failure keys that count for it.
func Main(property string, keep map[string]bool, rule string) int {
	replay := flag.String("replay", "", "replay file")
	flag.Parse()
	oxh.Quiet()
	tier := os.Getenv("VERIF_TIER")
	depth := QuickDepth
	budget := 70 * time.Second
	if tier == "thorough" {
		depth = ThoroughDepth
		budget = 20 * time.Minute
	}
	depths := []int{depth}
	if tier == "thorough" {
		depths = []int{depth - 1, depth}
	}
	if d := os.Getenv("VERIF_DEPTH"); d != "" {
		fmt.Sscanf(d, "%d", &depth)
		depths = []int{depth}
	}
	var ops []int
	for i := 0; i < nOps; i++ {
		ops = append(ops, i)
	}
	if *replay != "" {
		var doc struct {
			First struct {
				Replay struct {
					Seq []int `json:"seq"`
				} `json:"replay"`
			} `json:"first"`
		}
		if err := ev.ReadJSON(*replay, &doc); err != nil {
			fmt.Println("cannot read replay:", err)
			return 2
		}
		o := runSeq(doc.First.Replay.Seq)
		fmt.Println("events:", names(doc.First.Replay.Seq))
		fmt.Println("end state:", o.Sig)
		bad := false
		for _, f := range o.Fails {
			if keep == nil || keep[f.Key] {
				fmt.Printf("  %s: %s\n", f.Key, f.Msg)
				bad = true
			}
		}
		if bad {
			fmt.Printf("VIOLATION property=%s replay=%s\n", property, *replay)
			return 1
		}
		fmt.Println("replay passed")
		return 0
	}
	if w := os.Getenv("VERIF_WORKER"); w != "" {
		var idx, nw int
		fmt.Sscanf(w, "%d/%d", &idx, &nw)
		var dl int64
		fmt.Sscanf(os.Getenv("VERIF_DEADLINE"), "%d", &dl)
		r := worker(idx, nw, depths, ops, time.Unix(dl, 0), keep)
		b, _ := json.Marshal(r)
		_ = os.WriteFile(os.Getenv("VERIF_WORKER_OUT"), b, 0o644)
		return 0
	}
	run := ev.NewRun(property, "model_checking")
	run.MergeExisting = os.Getenv("VERIF_STAGE2") != ""
	nw := 16
	if v := os.Getenv("VERIF_WORKERS"); v != "" {
		fmt.Sscanf(v, "%d", &nw)
	}
	deadline := time.Now().Add(budget)
	scratch := ev.Scratch(strings.ToLower(property) + "-ffsm")
	defer os.RemoveAll(scratch)
	results := make([]*wresult, nw)
	var wg sync.WaitGroup
	failed := false
	for i := 0; i < nw; i++ {
		wg.Add(1)
		go func(i int) {
			defer wg.Done()
			outf := fmt.Sprintf("%s/w%d.json", scratch, i)
			cmd := exec.Command(os.Args[0])
			cmd.Env = append(os.Environ(), fmt.Sprintf("VERIF_WORKER=%d/%d", i, nw), "VERIF_WORKER_OUT="+outf,
				fmt.Sprintf("VERIF_DEADLINE=%d", deadline.Unix()), "GOMAXPROCS=2", "GOMEMLIMIT=900MiB", "VERIF_SCRATCH="+scratch)
			cmd.Stderr = os.Stderr
			wd := time.AfterFunc(time.Until(deadline)+2*time.Minute, func() {
				if cmd.Process != nil {
					_ = cmd.Process.Kill()
				}
			})
			err := cmd.Run()
			wd.Stop()
			if err != nil {
				failed = true
				fmt.Fprintf(os.Stderr, "worker %d failed: %v\n", i, err)
				return
			}
			b, err := os.ReadFile(outf)
			if err != nil {
				failed = true
				return
			}
			var r wresult
			if json.Unmarshal(b, &r) == nil {
				results[i] = &r
			}
		}(i)
	}
	wg.Wait()
	if failed {
		fmt.Fprintln(os.Stderr, "a worker process failed (infrastructure)")
		return 2
	}
	sigs := map[string]bool{}
	byDepth := map[int]int64{}
	type fv struct {
		seq []int
		msg string
		cnt int64
	}
	fails := map[string]*fv{}
	var runs, appl int64
	cut, completed := false, depth
	for _, r := range results {
		if r == nil {
			continue
		}
		runs += r.Runs
		appl += r.Applicable
		if r.Cut {
			cut = true
		}
		if r.Completed < completed {
			completed = r.Completed
		}
		for k := range r.Sigs {
			sigs[k] = true
		}
		for d, c := range r.ByDepth {
			byDepth[d] += c
		}
		for k, v := range r.Fails {
			var seq []int
			for _, x := range v[0].([]any) {
				seq = append(seq, int(x.(float64)))
			}
			cnt := int64(v[2].(float64))
			if cur, ok := fails[k]; !ok || len(seq) < len(cur.seq) {
				c := cnt
				if ok {
					c += cur.cnt
				}
				fails[k] = &fv{seq, v[1].(string), c}
			} else {
				cur.cnt += cnt
			}
		}
	}
	run.Add("states", appl)
	run.Add("transitions", runs)
	run.Add("traces_validated_against_impl", runs)
	run.Add("evaluations", runs)
	run.DistinctN(int64(len(sigs)))
	if cut {
		run.NotExhaustive(fmt.Sprintf("deadline reached: every event sequence up to length %d was run, those of length %d only in part", completed, depth))
	}
	run.Coverage["max_depth"] = depth
	run.Coverage["max_depth_completed"] = completed
	run.Coverage["event_alphabet"] = opNames
	run.Coverage["applicable_sequences_by_length"] = byDepth
	run.Sample(map[string]any{"events": []string{opNames[opNewTermNext], opNames[opAppendNext], opNames[opSnapshotBroken], opNames[opNewTermSame], opNames[opCrash]}})
	run.Assume = []string{"the follower's threads run under the cooperative scheduler with its default schedule: this search enumerates event sequences, not interleavings (the schedule stages do that)",
		"a crash kills the node's threads and releases the storage engine without its orderly shutdown: everything written to files is there, what Pebble only holds in memory (no engine WAL) is not",
		"the scripted leader is two entries ahead of the follower when it sends a snapshot; entries are single puts on three keys"}
	var keys []string
	for k := range fails {
		keys = append(keys, k)
	}
	sort.Strings(keys)
	for _, k := range keys {
		f := fails[k]
		run.Violate(ev.Violation{Key: k, Harness: "follower-fsm", Message: fmt.Sprintf("events %v: %s (%d sequences)", names(f.seq), f.msg, f.cnt),
			Replay: map[string]any{"seq": f.seq, "events": names(f.seq)}})
	}
	if rule == "" {
		rule = "every sequence of follower protocol events (14-event alphabet) up to max_depth, replayed from scratch on a real follower controller; a sequence is counted when its last event is applicable in the state reached; distinct = distinct end states (term, log end, model bounds)"
	}
	return run.Finish(rule)
}
