// Package fsnap: a real follower controller on a real directory, with requests of its leader in flight
// while something else happens to it (schedule stages of C04 and C07).
package fsnap

import (
	"context"
	"fmt"
	"path/filepath"
	"strings"
	"time"

	time2 "github.com/oxia-db/oxia/common/time"
	"github.com/oxia-db/oxia/proto"
	"github.com/oxia-db/oxia/server"
	"github.com/oxia-db/oxia/server/kv"
	"github.com/oxia-db/oxia/server/wal"
	"github.com/oxia-db/oxia/zzverif/vsched"

	"verif/lib/oxc"
	"verif/lib/oxh"
	"verif/lib/sched"
)

const (
	ns    = "ns"
	shard = int64(1)
)

func entry(term, off int64) *proto.LogEntry {
	lev := &proto.LogEntryValue{Value: &proto.LogEntryValue_Requests{Requests: &proto.WriteRequests{Writes: []*proto.WriteRequest{
		{Shard: oxh.I64(shard), Puts: []*proto.PutRequest{{Key: fmt.Sprintf("k%d", off%2), Value: []byte(fmt.Sprintf("v%d", off))}}}}}}}
	b, _ := lev.MarshalVT()
	return &proto.LogEntry{Term: term, Offset: off, Value: b, Timestamp: uint64(1000 + off)}
}

// donorNotificationsOff: the donor database belongs to a namespace with notifications disabled.
var donorNotificationsOff bool

// donorChunks builds the snapshot a leader of `term` holding entries 0..upTo would send.
func donorChunks(dir string, upTo, term int64) ([]*proto.SnapshotChunk, error) {
	pf, err := kv.NewPebbleKVFactory(&kv.FactoryOptions{DataDir: dir, CacheSizeMB: 1})
	if err != nil {
		return nil, err
	}
	defer pf.Close()
	db, err := kv.NewDB(ns, shard, pf, time.Hour, time2.SystemClock)
	if err != nil {
		return nil, err
	}
	defer db.Close()
	if err := db.UpdateTerm(term, kv.TermOptions{NotificationsEnabled: !donorNotificationsOff}); err != nil {
		return nil, err
	}
	db.EnableNotifications(!donorNotificationsOff)
	for o := int64(0); o <= upTo; o++ {
		lev := &proto.LogEntryValue{}
		_ = lev.UnmarshalVT(entry(term, o).Value)
		for _, w := range lev.GetRequests().GetWrites() {
			if _, err := db.ProcessWrite(w, o, uint64(1000+o), server.WrapperUpdateOperationCallback); err != nil {
				return nil, err
			}
		}
	}
	sn, err := db.Snapshot()
	if err != nil {
		return nil, err
	}
	defer sn.Close()
	var out []*proto.SnapshotChunk
	for ; sn.Valid(); sn.Next() {
		c, err := sn.Chunk()
		if err != nil {
			return nil, err
		}
		out = append(out, &proto.SnapshotChunk{Term: term, Name: c.Name(), Content: append([]byte{}, c.Content()...), ChunkIndex: c.Index(), ChunkCount: c.TotalCount()})
	}
	return out, nil
}

func walEnd(fc server.FollowerController) (term, off int64) {
	w := server.VerifFollowerWal(fc)
	lo := w.LastOffset()
	if lo < 0 {
		return -1, -1
	}
	rd, err := w.NewReverseReader()
	if err != nil {
		return -1, lo
	}
	defer rd.Close()
	if rd.HasNext() {
		if e, err := rd.ReadNext(); err == nil {
			return e.Term, e.Offset
		}
	}
	return -1, lo
}

const (
	inflightAppend = iota
	inflightTruncate
	inflightSnapshot
)

// twoNewTermsBody: two new-term requests of different terms arrive at a node that leads the shard (a delayed
// request of a superseded election and the current one). Whatever the order, the term the node's database
// holds afterwards is the highest term it answered for: a restart must not take it back.
func twoNewTermsBody() func(s *vsched.Sched) {
	return func(s *vsched.Sched) {
		s.Explore(false)
		env := oxc.NewEnv(s)
		kvf, err := kv.NewPebbleKVFactory(&kv.FactoryOptions{DataDir: filepath.Join(env.Dir, "n1", "db"), CacheSizeMB: 1})
		if err != nil {
			s.Fail("harness-setup", err.Error())
			return
		}
		walf := wal.NewWalFactory(&wal.FactoryOptions{BaseWalDir: filepath.Join(env.Dir, "n1", "wal"), Retention: time.Hour, SegmentSize: 64 * 1024, SyncData: true})
		lc, err := server.NewLeaderController(server.Config{NotificationsRetentionTime: time.Hour}, ns, shard, oxc.NewNet(), walf, kvf)
		opts := &proto.NewTermOptions{EnableNotifications: true}
		if err == nil {
			_, err = lc.NewTerm(&proto.NewTermRequest{Namespace: ns, Shard: shard, Term: 5, Options: opts})
		}
		if err == nil {
			_, err = lc.BecomeLeader(context.Background(), &proto.BecomeLeaderRequest{Namespace: ns, Shard: shard, Term: 5, ReplicationFactor: 1, FollowerMaps: map[string]*proto.EntryId{}})
		}
		if err != nil {
			s.Fail("harness-setup", err.Error())
			return
		}
		defer func() {
			_ = lc.Close()
			_ = walf.Close()
			_ = kvf.Close()
		}()
		s.Settle()
		s.Explore(true)
		answered := int64(5)
		var errs [2]error
		for i, t := range []int64{6, 7} {
			i, t := i, t
			vsched.Go(func() {
				_, errs[i] = lc.NewTerm(&proto.NewTermRequest{Namespace: ns, Shard: shard, Term: t, Options: opts})
				if errs[i] == nil && t > answered {
					answered = t
				}
			})
		}
		s.Settle()
		s.Explore(false)
		stored, _, err := server.VerifLeaderDB(lc).ReadTerm()
		if err != nil {
			s.Fail("harness-setup", err.Error())
			return
		}
		if stored < answered {
			s.Fail("durable-term-below-answered-term", fmt.Sprintf("the node answered NewTerm(%d) (results: NewTerm(6) %v, NewTerm(7) %v); its database holds term %d: a restart brings it back in that term", answered, errs[0], errs[1], stored))
		}
		s.Data = fmt.Sprintf("answered=%d stored=%d", answered, stored)
	}
}

// closeBody: the node is told to lead (or the shard moves away) and the shards director closes the follower
// controller while an append of the deposed leader is still in flight on the open stream: the append must be
// refused (or stored before the close), never take the node down.
func closeBody(n int64) func(s *vsched.Sched) {
	return func(s *vsched.Sched) {
		s.Explore(false)
		env := oxc.NewEnv(s)
		net := oxc.NewNet()
		kvf, err := kv.NewPebbleKVFactory(&kv.FactoryOptions{DataDir: filepath.Join(env.Dir, "n2", "db"), CacheSizeMB: 1})
		if err != nil {
			s.Fail("harness-setup", err.Error())
			return
		}
		walf := wal.NewWalFactory(&wal.FactoryOptions{BaseWalDir: filepath.Join(env.Dir, "n2", "wal"), Retention: time.Hour, SegmentSize: 64 * 1024, SyncData: true})
		fc, err := server.NewFollowerController(server.Config{NotificationsRetentionTime: time.Hour}, ns, shard, walf, kvf)
		if err != nil {
			s.Fail("harness-setup", err.Error())
			return
		}
		defer func() {
			_ = fc.Close()
			_ = walf.Close()
			_ = kvf.Close()
		}()
		net.Peers["n2"] = fc
		if _, err := fc.NewTerm(&proto.NewTermRequest{Namespace: ns, Shard: shard, Term: 1, Options: &proto.NewTermOptions{EnableNotifications: true}}); err != nil {
			s.Fail("harness-setup", err.Error())
			return
		}
		stream, err := net.GetReplicateStream(context.Background(), "n2", ns, shard, 1)
		if err != nil {
			s.Fail("harness-setup", err.Error())
			return
		}
		nacks := 0
		vsched.Go(func() {
			for {
				if _, err := stream.Recv(); err != nil {
					return
				}
				nacks++
			}
		})
		for o := int64(0); o < n; o++ {
			if err := stream.Send(&proto.Append{Term: 1, Entry: entry(1, o), CommitOffset: o - 1}); err != nil {
				s.Fail("harness-setup", err.Error())
				return
			}
		}
		s.Settle()
		s.Explore(true)
		_ = stream.Send(&proto.Append{Term: 1, Entry: entry(1, n), CommitOffset: n - 1})
		_ = stream.Send(&proto.Append{Term: 1, Entry: entry(1, n+1), CommitOffset: n})
		var cerr error
		vsched.Go(func() { cerr = fc.Close() })
		s.Settle()
		// the deposed leader does not know yet: its connection ended with the refusal, it connects again to the
		// node it knows and sends the entry once more. The closed controller must refuse, not fall over.
		late := "not-connected"
		if st2, err := net.GetReplicateStream(context.Background(), "n2", ns, shard, 1); err == nil {
			late = "connected"
			_ = st2.Send(&proto.Append{Term: 1, Entry: entry(1, n), CommitOffset: n - 1})
			vsched.Go(func() {
				if _, err := st2.Recv(); err != nil {
					late = "refused"
				} else {
					late = "acknowledged"
				}
			})
			s.Settle()
		}
		s.Explore(false)
		// a panic in one of the controller's threads ends the execution as a failure of its own
		s.Data = fmt.Sprintf("acks=%d close=%v late=%s", nacks, cerr, late)
	}
}

// body: a follower with n acknowledged entries of term 1; `what` of the old leader races with NewTerm.
func body(what int, n int64) func(s *vsched.Sched) {
	return func(s *vsched.Sched) {
		s.Explore(false)
		env := oxc.NewEnv(s)
		net := oxc.NewNet()
		kvf, err := kv.NewPebbleKVFactory(&kv.FactoryOptions{DataDir: filepath.Join(env.Dir, "n2", "db"), CacheSizeMB: 1})
		if err != nil {
			s.Fail("harness-setup", err.Error())
			return
		}
		walf := wal.NewWalFactory(&wal.FactoryOptions{BaseWalDir: filepath.Join(env.Dir, "n2", "wal"), Retention: time.Hour, SegmentSize: 64 * 1024, SyncData: true})
		fc, err := server.NewFollowerController(server.Config{NotificationsRetentionTime: time.Hour}, ns, shard, walf, kvf)
		if err != nil {
			s.Fail("harness-setup", err.Error())
			return
		}
		defer func() {
			_ = fc.Close()
			_ = walf.Close()
			_ = kvf.Close()
		}()
		net.Peers["n2"] = fc
		opts := &proto.NewTermOptions{EnableNotifications: true}
		if _, err := fc.NewTerm(&proto.NewTermRequest{Namespace: ns, Shard: shard, Term: 1, Options: opts}); err != nil {
			s.Fail("harness-setup", err.Error())
			return
		}
		stream, err := net.GetReplicateStream(context.Background(), "n2", ns, shard, 1)
		if err != nil {
			s.Fail("harness-setup", err.Error())
			return
		}
		var acks []int64
		vsched.Go(func() {
			for {
				a, err := stream.Recv()
				if err != nil {
					return
				}
				acks = append(acks, a.Offset)
			}
		})
		for o := int64(0); o < n; o++ {
			if err := stream.Send(&proto.Append{Term: 1, Entry: entry(1, o), CommitOffset: o - 1}); err != nil {
				s.Fail("harness-setup", err.Error())
				return
			}
		}
		s.Settle()
		if int64(len(acks)) != n {
			s.Fail("harness-setup", fmt.Sprintf("%d of %d entries acknowledged", len(acks), n))
			return
		}
		fenceTerm := int64(2)
		var chunks []*proto.SnapshotChunk
		switch what {
		case inflightTruncate:
			// a truncation is only served by a fenced node: the node is fenced at term 2, the leader of term 2
			// truncates while the coordinator already starts term 3
			if _, err := fc.NewTerm(&proto.NewTermRequest{Namespace: ns, Shard: shard, Term: 2, Options: opts}); err != nil {
				s.Fail("harness-setup", err.Error())
				return
			}
			s.Settle()
			fenceTerm = 3
		case inflightSnapshot:
			// the leader closes its replication stream before it sends a snapshot
			_ = stream.CloseSend()
			s.Settle()
			if chunks, err = donorChunks(filepath.Join(env.Dir, "donor"), n+1, 1); err != nil {
				s.Fail("harness-setup", "donor snapshot: "+err.Error())
				return
			}
		}
		ctx, cancel := context.WithCancel(context.Background())
		defer cancel()
		s.Explore(true)
		old := ""
		switch what {
		case inflightAppend:
			// already on the wire when the exploration starts
			if err := stream.Send(&proto.Append{Term: 1, Entry: entry(1, n), CommitOffset: n - 1}); err != nil {
				old = "append: " + err.Error()
			}
		case inflightTruncate:
			vsched.Go(func() {
				_, err := net.Truncate("n2", &proto.TruncateRequest{Namespace: ns, Shard: shard, Term: 2, HeadEntryId: &proto.EntryId{Term: 1, Offset: n - 2}})
				old = fmt.Sprintf("truncate: %v", err)
			})
		case inflightSnapshot:
			vsched.Go(func() {
				cl, err := net.SendSnapshot(ctx, "n2", ns, shard, 1)
				if err != nil {
					old = "snapshot: " + err.Error()
					return
				}
				for _, c := range chunks {
					if err := cl.Send(c); err != nil {
						break
					}
				}
				r, err := cl.CloseAndRecv()
				old = fmt.Sprintf("snapshot: %v %v", r.GetAckOffset(), err)
			})
		}
		var head *proto.EntryId
		var fenceErr error
		vsched.Go(func() {
			r, err := fc.NewTerm(&proto.NewTermRequest{Namespace: ns, Shard: shard, Term: fenceTerm, Options: opts})
			fenceErr = err
			if err == nil {
				head = r.HeadEntryId
			}
		})
		s.Settle()
		s.Explore(false)
		cancel()
		s.Settle()
		wt, wo := walEnd(fc)
		if fenceErr != nil {
			s.Fail("newterm-refused", fmt.Sprintf("NewTerm(%d) refused by a node in term %d: %v", fenceTerm, fenceTerm-1, fenceErr))
		} else if head.Offset != wo || (wo >= 0 && head.Term != wt) {
			s.Fail("head-changed-after-fence", fmt.Sprintf("NewTerm(%d) answered head (%d,%d); with no request of a term >= %d served since, the log now ends at (%d,%d) [old leader's request: %s]",
				fenceTerm, head.Term, head.Offset, fenceTerm, wt, wo, old))
		}
		for _, a := range acks[n:] {
			if head != nil && a > head.Offset {
				s.Fail("ack-beyond-reported-head", fmt.Sprintf("offset %d acknowledged to the term-1 leader, NewTerm(%d) reported head offset %d", a, fenceTerm, head.Offset))
			}
		}
		st, _ := fc.GetStatus(&proto.GetStatusRequest{Shard: shard})
		s.Data = fmt.Sprintf("head=%v end=(%d,%d) term=%d old=%s", head, wt, wo, st.GetTerm(), old)
	}
}

// FencingScenarios: one request of the deposed leader in flight while NewTerm arrives (C04).
func FencingScenarios(tier string) []sched.Scenario {
	cfg := vsched.Config{MaxSteps: 50000}
	dev := 2
	if tier == "thorough" {
		dev = 3
	}
	return []sched.Scenario{
		{Name: "append-in-flight-vs-newterm", Cfg: cfg, MaxDev: dev, Body: body(inflightAppend, 3)},
		{Name: "truncate-in-flight-vs-newterm", Cfg: cfg, MaxDev: dev, Body: body(inflightTruncate, 3)},
		{Name: "snapshot-start-vs-newterm", Cfg: cfg, MaxDev: dev, Body: body(inflightSnapshot, 3)},
		{Name: "append-in-flight-vs-close", Cfg: cfg, MaxDev: dev, Body: closeBody(3)},
		{Name: "two-newterms-on-a-leader", Cfg: cfg, MaxDev: dev, Body: twoNewTermsBody()},
	}
}

// slowReadFactory wraps the follower's WAL: reading entry `at` through a forward reader (only the apply
// loop does that) is slow once the harness has armed it: the reader returns only after the harness has seen
// everything else come to rest (a long backlog has the same effect: the apply loop is still busy).
type slowReadFactory struct {
	wal.Factory
	s     *vsched.Sched
	at    int64
	armed bool
	held  bool
	gate  chan struct{}
}

func (f *slowReadFactory) NewWal(namespace string, shard int64, p wal.CommitOffsetProvider) (wal.Wal, error) {
	w, err := f.Factory.NewWal(namespace, shard, p)
	if err != nil {
		return nil, err
	}
	return &slowReadWal{Wal: w, f: f}, nil
}

type slowReadWal struct {
	wal.Wal
	f *slowReadFactory
}

func (w *slowReadWal) NewReader(after int64) (wal.Reader, error) {
	r, err := w.Wal.NewReader(after)
	if err != nil {
		return nil, err
	}
	return &slowReader{Reader: r, f: w.f}, nil
}

type slowReader struct {
	wal.Reader
	f *slowReadFactory
}

func (r *slowReader) ReadNext() (*proto.LogEntry, error) {
	e, err := r.Reader.ReadNext()
	if err == nil && e != nil && r.f.armed && e.Offset == r.f.at {
		r.f.armed = false
		r.f.held = true
		vsched.Recv(r.f.gate)
	}
	return e, err
}

// backlogBody: the follower still has committed entries to apply (its apply loop runs on its own, outside the
// controller lock) when the next term starts and the new leader, whose log no longer holds what this node
// lacks, restores it from a snapshot. Whatever the order of the apply loop and the installation, the database
// must end as the fold of the leader's log up to the commit offset it records, and that offset must not be
// below what the node answered to the snapshot.
func backlogBody(n int64, slowAt int64) func(s *vsched.Sched) {
	return func(s *vsched.Sched) {
		s.Explore(false)
		env := oxc.NewEnv(s)
		net := oxc.NewNet()
		kvf, err := kv.NewPebbleKVFactory(&kv.FactoryOptions{DataDir: filepath.Join(env.Dir, "n2", "db"), CacheSizeMB: 1})
		if err != nil {
			s.Fail("harness-setup", err.Error())
			return
		}
		realWalf := wal.NewWalFactory(&wal.FactoryOptions{BaseWalDir: filepath.Join(env.Dir, "n2", "wal"), Retention: time.Hour, SegmentSize: 64 * 1024, SyncData: true})
		walf := &slowReadFactory{Factory: realWalf, s: s, at: slowAt, gate: make(chan struct{})}
		fc, err := server.NewFollowerController(server.Config{NotificationsRetentionTime: time.Hour}, ns, shard, walf, kvf)
		if err != nil {
			s.Fail("harness-setup", err.Error())
			return
		}
		defer func() {
			_ = fc.Close()
			_ = walf.Close()
			_ = kvf.Close()
		}()
		net.Peers["n2"] = fc
		opts := &proto.NewTermOptions{EnableNotifications: true}
		if _, err := fc.NewTerm(&proto.NewTermRequest{Namespace: ns, Shard: shard, Term: 1, Options: opts}); err != nil {
			s.Fail("harness-setup", err.Error())
			return
		}
		stream, err := net.GetReplicateStream(context.Background(), "n2", ns, shard, 1)
		if err != nil {
			s.Fail("harness-setup", err.Error())
			return
		}
		vsched.Go(func() {
			for {
				if _, err := stream.Recv(); err != nil {
					return
				}
			}
		})
		var all []*proto.LogEntry
		for o := int64(0); o <= n+1; o++ {
			all = append(all, entry(1, o))
		}
		chunks, err := donorChunks(filepath.Join(env.Dir, "donor"), n+1, 2)
		if err != nil {
			s.Fail("harness-setup", "donor snapshot: "+err.Error())
			return
		}
		s.Settle()
		walf.armed = slowAt >= 0
		// n entries, each committed as soon as it is stored
		for o := int64(0); o < n; o++ {
			if err := stream.Send(&proto.Append{Term: 1, Entry: entry(1, o), CommitOffset: o}); err != nil {
				s.Fail("harness-setup", err.Error())
				return
			}
		}
		ctx, cancel := context.WithCancel(context.Background())
		defer cancel()
		if slowAt >= 0 {
			// the entries are stored and acknowledged; the apply loop is in the middle of its backlog
			s.Settle()
			if !walf.held {
				s.Fail("harness-setup", "the apply loop did not reach the slow read")
				return
			}
		}
		s.Explore(true)
		out := ""
		var ack *proto.SnapshotResponse
		vsched.Go(func() {
			if _, err := fc.NewTerm(&proto.NewTermRequest{Namespace: ns, Shard: shard, Term: 2, Options: opts}); err != nil {
				out = "newterm: " + err.Error()
				return
			}
			cl, err := net.SendSnapshot(ctx, "n2", ns, shard, 2)
			if err != nil {
				out = "snapshot: " + err.Error()
				return
			}
			for _, c := range chunks {
				if err := cl.Send(c); err != nil {
					break
				}
			}
			r, err := cl.CloseAndRecv()
			if err != nil {
				out = "snapshot: " + err.Error()
				return
			}
			ack = r
		})
		s.Settle()
		if walf.held {
			// the slow read completes now
			vsched.Close(walf.gate)
			s.Settle()
		}
		s.Explore(false)
		cancel()
		s.Settle()
		db := server.VerifFollowerDB(fc)
		if db == nil {
			s.Data = "no database: " + out
			return
		}
		c, err := db.ReadCommitOffset()
		if err != nil {
			s.Fail("harness-setup", err.Error())
			return
		}
		if ack != nil && c < ack.AckOffset {
			s.Fail("commit-offset-below-installed-snapshot", fmt.Sprintf("the node answered the snapshot transfer with offset %d; its database now records commit offset %d", ack.AckOffset, c))
		}
		if c >= 0 && c < int64(len(all)) {
			if d := oxc.FoldDiffers(ns, shard, db, all, c); d != "" {
				s.Fail("follower-state-not-fold-of-log", fmt.Sprintf("follower database (stored commit offset %d, snapshot answered with %v) differs from applying the leader's entries 0..%d in order:\n %s", c, ack.GetAckOffset(), c, d))
			}
		}
		s.Data = fmt.Sprintf("commit=%d ack=%v held=%v %s", c, ack, walf.held, out)
	}
}

// BacklogScenarios: snapshot installation racing with the follower's own apply loop (C07).
func BacklogScenarios(tier string) []sched.Scenario {
	dev := 2
	if tier == "thorough" {
		dev = 3
	}
	return []sched.Scenario{
		{Name: "follower-snapshot-install-vs-apply-backlog", Cfg: vsched.Config{MaxSteps: 50000}, MaxDev: dev, Body: backlogBody(3, -1)},
		// the apply loop is in the middle of its backlog (its read of the second entry is slow) when the next
		// term starts: the election and the snapshot transfer run, in every order of their threads, then the
		// read completes
		{Name: "follower-snapshot-install-vs-slow-apply-read", Cfg: vsched.Config{MaxSteps: 50000}, MaxDev: dev, Body: backlogBody(3, 1)},
	}
}

// reconnectBody: what a follower acknowledges is stored durably (C03). The connection of the leader drops
// while an entry is on its way or just appended; the leader's cursor reconnects in the same term and sends its
// first unacknowledged entry again. Every ack the follower hands to a stream is checked, at that instant,
// against what completed flushes of its log cover (the flush of the segment is a scheduling point, an msync
// covers what the mapping held when it started).
func reconnectBody() func(s *vsched.Sched) {
	return func(s *vsched.Sched) {
		s.Explore(false)
		env := oxc.NewEnv(s)
		net := oxc.NewNet()
		kvf, err := kv.NewPebbleKVFactory(&kv.FactoryOptions{DataDir: filepath.Join(env.Dir, "n2", "db"), CacheSizeMB: 1})
		if err != nil {
			s.Fail("harness-setup", err.Error())
			return
		}
		walf := wal.NewWalFactory(&wal.FactoryOptions{BaseWalDir: filepath.Join(env.Dir, "n2", "wal"), Retention: time.Hour, SegmentSize: 64 * 1024, SyncData: true})
		fc, err := server.NewFollowerController(server.Config{NotificationsRetentionTime: time.Hour}, ns, shard, walf, kvf)
		if err != nil {
			s.Fail("harness-setup", err.Error())
			return
		}
		defer func() {
			_ = fc.Close()
			_ = walf.Close()
			_ = kvf.Close()
		}()
		net.Peers["n2"] = fc
		if _, err := fc.NewTerm(&proto.NewTermRequest{Namespace: ns, Shard: shard, Term: 1, Options: &proto.NewTermOptions{EnableNotifications: true}}); err != nil {
			s.Fail("harness-setup", err.Error())
			return
		}
		w := server.VerifFollowerWal(fc)
		durable := int64(-1)
		var starts []int64
		wal.VerifC10ObserveFlush(w, func() {
			_, appended, _ := wal.VerifPeekOffsets(w)
			starts = append(starts, appended)
			s.Step(9)
		}, func() {
			if st := starts[len(starts)-1]; st > durable {
				durable = st
			}
		})
		var acked []int64
		net.OnAckSend = func(_ *oxc.RepStream, a *proto.Ack) {
			acked = append(acked, a.Offset)
			if a.Offset > durable {
				s.Fail("acknowledged-before-flush", fmt.Sprintf("the follower acknowledges offset %d; completed flushes of its log cover offsets up to %d only (flushes started at appended offsets %v)", a.Offset, durable, starts))
			}
		}
		drain := func(st proto.OxiaLogReplication_ReplicateClient) {
			vsched.Go(func() {
				for {
					if _, err := st.Recv(); err != nil {
						return
					}
				}
			})
		}
		st1, err := net.GetReplicateStream(context.Background(), "n2", ns, shard, 1)
		if err != nil {
			s.Fail("harness-setup", err.Error())
			return
		}
		drain(st1)
		if err := st1.Send(&proto.Append{Term: 1, Entry: entry(1, 0), CommitOffset: -1}); err != nil {
			s.Fail("harness-setup", err.Error())
			return
		}
		s.Settle()
		s.Explore(true)
		// entry 1 is on the wire when the connection drops
		_ = st1.Send(&proto.Append{Term: 1, Entry: entry(1, 1), CommitOffset: 0})
		vsched.Go(func() { net.Streams[0].Break() })
		s.Settle()
		// the cursor reconnects and sends entry 1 again
		st2, err := net.GetReplicateStream(context.Background(), "n2", ns, shard, 1)
		if err == nil {
			drain(st2)
			_ = st2.Send(&proto.Append{Term: 1, Entry: entry(1, 1), CommitOffset: 0})
		}
		s.Settle()
		s.Explore(false)
		s.Data = fmt.Sprintf("acked=%v durable=%d flushes=%v", acked, durable, starts)
	}
}

// AckDurabilityScenarios: see reconnectBody (C03).
func AckDurabilityScenarios(tier string) []sched.Scenario {
	dev := 3
	if tier == "thorough" {
		dev = 4
	}
	return []sched.Scenario{{Name: "connection-drop-then-entry-sent-again", Cfg: vsched.Config{MaxSteps: 50000}, MaxDev: dev, Body: reconnectBody()}}
}

// notificationsOffBody: a namespace with notifications disabled. A follower is restored from a snapshot and
// then applies further entries; like every other replica of that namespace it must not store notification
// batches (C06: replicas that applied the same prefix hold the same state, however they got there).
func notificationsOffBody() func(s *vsched.Sched) {
	return func(s *vsched.Sched) {
		s.Explore(false)
		env := oxc.NewEnv(s)
		net := oxc.NewNet()
		kvf, err := kv.NewPebbleKVFactory(&kv.FactoryOptions{DataDir: filepath.Join(env.Dir, "n2", "db"), CacheSizeMB: 1})
		if err != nil {
			s.Fail("harness-setup", err.Error())
			return
		}
		walf := wal.NewWalFactory(&wal.FactoryOptions{BaseWalDir: filepath.Join(env.Dir, "n2", "wal"), Retention: time.Hour, SegmentSize: 64 * 1024, SyncData: true})
		fc, err := server.NewFollowerController(server.Config{NotificationsRetentionTime: time.Hour}, ns, shard, walf, kvf)
		if err != nil {
			s.Fail("harness-setup", err.Error())
			return
		}
		defer func() {
			_ = fc.Close()
			_ = walf.Close()
			_ = kvf.Close()
		}()
		net.Peers["n2"] = fc
		off := &proto.NewTermOptions{EnableNotifications: false}
		if _, err := fc.NewTerm(&proto.NewTermRequest{Namespace: ns, Shard: shard, Term: 1, Options: off}); err != nil {
			s.Fail("harness-setup", err.Error())
			return
		}
		donorNotificationsOff = true
		chunks, err := donorChunks(filepath.Join(env.Dir, "donor"), 2, 1)
		donorNotificationsOff = false
		if err != nil {
			s.Fail("harness-setup", "donor snapshot: "+err.Error())
			return
		}
		ctx, cancel := context.WithCancel(context.Background())
		defer cancel()
		s.Explore(true)
		cl, err := net.SendSnapshot(ctx, "n2", ns, shard, 1)
		if err != nil {
			s.Fail("harness-setup", err.Error())
			return
		}
		for _, c := range chunks {
			if err := cl.Send(c); err != nil {
				break
			}
		}
		if _, err := cl.CloseAndRecv(); err != nil {
			s.Fail("harness-setup", "snapshot: "+err.Error())
			return
		}
		s.Settle()
		stream, err := net.GetReplicateStream(context.Background(), "n2", ns, shard, 1)
		if err != nil {
			s.Fail("harness-setup", err.Error())
			return
		}
		vsched.Go(func() {
			for {
				if _, err := stream.Recv(); err != nil {
					return
				}
			}
		})
		for o := int64(3); o <= 4; o++ {
			if err := stream.Send(&proto.Append{Term: 1, Entry: entry(1, o), CommitOffset: o}); err != nil {
				s.Fail("harness-setup", err.Error())
				return
			}
		}
		s.Settle()
		s.Explore(false)
		db := server.VerifFollowerDB(fc)
		c, _ := db.ReadCommitOffset()
		var batches []string
		for _, l := range oxh.DumpDB(db, oxh.DumpOpts{SkipTerm: true}) {
			if strings.Contains(l, "__oxia/notifications/") {
				batches = append(batches, l)
			}
		}
		if c == 4 && len(batches) > 0 {
			s.Fail("notification-batches-in-namespace-without-notifications", fmt.Sprintf("notifications are disabled for the namespace; a follower restored from a snapshot (offsets 0..2) that then applied offsets 3..4 stores %d notification batch(es), which no other replica of the shard has: %v", len(batches), batches))
		}
		s.Data = fmt.Sprintf("commit=%d batches=%d", c, len(batches))
	}
}

// notificationsOffRestartBody: the same namespace; a follower is restarted in the middle of a term and the
// leader re-attaches its stream in that term (no NewTerm): it reads its options back from its database and must
// still store no notification batches.
func notificationsOffRestartBody() func(s *vsched.Sched) {
	return func(s *vsched.Sched) {
		s.Explore(false)
		env := oxc.NewEnv(s)
		net := oxc.NewNet()
		open := func() (server.FollowerController, kv.Factory, wal.Factory, error) {
			kvf, err := kv.NewPebbleKVFactory(&kv.FactoryOptions{DataDir: filepath.Join(env.Dir, "n2", "db"), CacheSizeMB: 1})
			if err != nil {
				return nil, nil, nil, err
			}
			walf := wal.NewWalFactory(&wal.FactoryOptions{BaseWalDir: filepath.Join(env.Dir, "n2", "wal"), Retention: time.Hour, SegmentSize: 64 * 1024, SyncData: true})
			fc, err := server.NewFollowerController(server.Config{NotificationsRetentionTime: time.Hour}, ns, shard, walf, kvf)
			return fc, kvf, walf, err
		}
		fc, kvf, walf, err := open()
		if err != nil {
			s.Fail("harness-setup", err.Error())
			return
		}
		net.Peers["n2"] = fc
		if _, err := fc.NewTerm(&proto.NewTermRequest{Namespace: ns, Shard: shard, Term: 1, Options: &proto.NewTermOptions{EnableNotifications: false}}); err != nil {
			s.Fail("harness-setup", err.Error())
			return
		}
		feed := func(from, to int64) bool {
			stream, err := net.GetReplicateStream(context.Background(), "n2", ns, shard, 1)
			if err != nil {
				s.Fail("harness-setup", err.Error())
				return false
			}
			vsched.Go(func() {
				for {
					if _, err := stream.Recv(); err != nil {
						return
					}
				}
			})
			for o := from; o <= to; o++ {
				if err := stream.Send(&proto.Append{Term: 1, Entry: entry(1, o), CommitOffset: o}); err != nil {
					s.Fail("harness-setup", err.Error())
					return false
				}
			}
			s.Settle()
			return true
		}
		s.Explore(true)
		if !feed(0, 1) {
			return
		}
		_ = fc.Close()
		s.Settle()
		_ = walf.Close()
		_ = kvf.Close()
		fc, kvf, walf, err = open()
		if err != nil {
			s.Fail("harness-setup", "restart: "+err.Error())
			return
		}
		defer func() {
			_ = fc.Close()
			_ = walf.Close()
			_ = kvf.Close()
		}()
		net.Peers["n2"] = fc
		if !feed(2, 3) {
			return
		}
		s.Explore(false)
		db := server.VerifFollowerDB(fc)
		c, _ := db.ReadCommitOffset()
		var batches []string
		for _, l := range oxh.DumpDB(db, oxh.DumpOpts{SkipTerm: true}) {
			if strings.Contains(l, "__oxia/notifications/") {
				batches = append(batches, l)
			}
		}
		if c == 3 && len(batches) > 0 {
			s.Fail("notification-batches-in-namespace-without-notifications", fmt.Sprintf("notifications are disabled for the namespace; a follower restarted in the middle of the term (after offsets 0..1) that then applied offsets 2..3 stores %d notification batch(es), which no other replica of the shard has: %v", len(batches), batches))
		}
		s.Data = fmt.Sprintf("commit=%d batches=%d", c, len(batches))
	}
}

// NotificationsOffScenarios: see notificationsOffBody (C06).
func NotificationsOffScenarios(tier string) []sched.Scenario {
	return []sched.Scenario{
		{Name: "snapshot-restored-follower-in-namespace-without-notifications", Cfg: vsched.Config{MaxSteps: 50000}, MaxDev: 1, Body: notificationsOffBody()},
		{Name: "restarted-follower-in-namespace-without-notifications", Cfg: vsched.Config{MaxSteps: 50000}, MaxDev: 1, Body: notificationsOffRestartBody()},
	}
}
