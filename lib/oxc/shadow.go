package oxc

import (
	"context"

	"github.com/oxia-db/oxia/proto"
	"github.com/oxia-db/oxia/server/wal"
)

// ShadowWal records what a controller asked its WAL to store, in plain memory that
// monitors can read without scheduling points. The WAL itself is trusted here (C09/C10
// check it on its own).
type ShadowWal struct {
	wal.Wal
	Entries map[int64]*proto.LogEntry
	Last    int64
}

type ShadowFactory struct {
	wal.Factory
	Wals []*ShadowWal
}

func (f *ShadowFactory) NewWal(namespace string, shard int64, p wal.CommitOffsetProvider) (wal.Wal, error) {
	w, err := f.Factory.NewWal(namespace, shard, p)
	if err != nil {
		return nil, err
	}
	sw := &ShadowWal{Wal: w, Entries: map[int64]*proto.LogEntry{}, Last: -1}
	// pick up what is already on disk (restart)
	if w.LastOffset() >= 0 {
		if r, err := w.NewReader(w.FirstOffset() - 1); err == nil {
			for r.HasNext() {
				e, err := r.ReadNext()
				if err != nil {
					break
				}
				sw.Entries[e.Offset] = e
				sw.Last = e.Offset
			}
			_ = r.Close()
		}
	}
	f.Wals = append(f.Wals, sw)
	return sw, nil
}

// Current returns the most recently opened WAL of this node (nil if none).
func (f *ShadowFactory) Current() *ShadowWal {
	if len(f.Wals) == 0 {
		return nil
	}
	return f.Wals[len(f.Wals)-1]
}

func (w *ShadowWal) record(e *proto.LogEntry) {
	w.Entries[e.Offset] = e.CloneVT()
	w.Last = e.Offset
}

func (w *ShadowWal) Append(e *proto.LogEntry) error {
	err := w.Wal.Append(e)
	if err == nil {
		w.record(e)
	}
	return err
}

func (w *ShadowWal) AppendAsync(e *proto.LogEntry) error {
	err := w.Wal.AppendAsync(e)
	if err == nil {
		w.record(e)
	}
	return err
}

func (w *ShadowWal) AppendAndSync(e *proto.LogEntry, cb func(err error)) {
	prevLast := w.Last
	w.record(e)
	w.Wal.AppendAndSync(e, func(err error) {
		if err != nil {
			if x, ok := w.Entries[e.Offset]; ok && string(x.Value) == string(e.Value) && x.Term == e.Term {
				delete(w.Entries, e.Offset)
				if w.Last == e.Offset {
					w.Last = prevLast
				}
			}
		}
		cb(err)
	})
}

func (w *ShadowWal) TruncateLog(o int64) (int64, error) {
	r, err := w.Wal.TruncateLog(o)
	if err == nil {
		for k := range w.Entries {
			if k > r {
				delete(w.Entries, k)
			}
		}
		w.Last = r
	}
	return r, err
}

func (w *ShadowWal) Clear() error {
	err := w.Wal.Clear()
	if err == nil {
		w.Entries = map[int64]*proto.LogEntry{}
		w.Last = -1
	}
	return err
}

func (w *ShadowWal) Sync(ctx context.Context) error { return w.Wal.Sync(ctx) }

// Synced returns the last synced offset of the real WAL without scheduling points.
func (w *ShadowWal) Synced() int64 {
	_, _, synced := wal.VerifPeekOffsets(w.Wal)
	return synced
}

func SameEntry(a, b *proto.LogEntry) bool {
	return a != nil && b != nil && a.Term == b.Term && a.Offset == b.Offset && a.Timestamp == b.Timestamp && string(a.Value) == string(b.Value)
}
