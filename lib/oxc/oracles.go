package oxc

import (
	"fmt"
	"math"
	"sort"
	"strings"
	"time"

	"github.com/anishathalye/porcupine"

	time2 "github.com/oxia-db/oxia/common/time"
	"github.com/oxia-db/oxia/proto"
	"github.com/oxia-db/oxia/server"
	"github.com/oxia-db/oxia/server/kv"
	"github.com/oxia-db/oxia/zzverif/vsched"
)

// =====================================================================================
// C05 election safety

type ElectionOracle struct {
	c       *Cluster
	s       *vsched.Sched
	leaders map[int64]map[string]bool
	lastT   map[string]int64
	maxSent int64
	fenced  map[int64]map[string]*proto.EntryId
	// leaderSent: the node BecomeLeader(term) was sent to
	leaderSent map[int64]string
}

func (o *ElectionOracle) Attach(c *Cluster, obs *Obs) {
	o.c = c
	o.s = c.S
	o.leaders = map[int64]map[string]bool{}
	o.lastT = map[string]int64{}
	o.maxSent = -1
	o.fenced = map[int64]map[string]*proto.EntryId{}
	prev := c.OnRPC
	c.OnRPC = func(e Event) {
		if prev != nil {
			prev(e)
		}
		o.onRPC(e)
	}
}

func headLess(a, b *proto.EntryId) bool {
	if a.Term != b.Term {
		return a.Term < b.Term
	}
	return a.Offset < b.Offset
}

func (o *ElectionOracle) onRPC(e Event) {
	s := o.s
	switch e.Kind {
	case "resp:NewTerm":
		if e.Err == "" && e.Head != nil {
			if o.fenced[e.Term] == nil {
				o.fenced[e.Term] = map[string]*proto.EntryId{}
			}
			o.fenced[e.Term][e.Node] = e.Head
		}
	case "send:NewTerm", "send:BecomeLeader":
		md, ok := o.c.StoredMetadata()
		if !ok || e.Term > md.Term {
			s.Fail("term-not-durable", fmt.Sprintf("%s to %s carries term %d but the metadata store holds term %d", e.Kind, e.Node, e.Term, md.Term))
		}
		if e.Term < o.maxSent {
			s.Fail("term-reused-or-regressed", fmt.Sprintf("%s to %s carries term %d after term %d had already been sent", e.Kind, e.Node, e.Term, o.maxSent))
		}
		if e.Term > o.maxSent {
			o.maxSent = e.Term
		}
		if e.Kind == "send:BecomeLeader" {
			if prev, ok := o.leaderSent[e.Term]; ok && prev != e.Node {
				s.Fail("two-leaders-installed-in-term", fmt.Sprintf("BecomeLeader(term %d) sent to %s after it had been sent to %s", e.Term, e.Node, prev))
			}
			if o.leaderSent == nil {
				o.leaderSent = map[int64]string{}
			}
			o.leaderSent[e.Term] = e.Node
			o.checkBecomeLeader(e, md.Ensemble, md.RemovedNodes)
		}
	}
}

func (o *ElectionOracle) checkBecomeLeader(e Event, ensemble, removed interface{}) {
	s := o.s
	md, _ := o.c.StoredMetadata()
	inEns := map[string]bool{}
	q := map[string]bool{}
	for _, x := range md.Ensemble {
		inEns[x.Internal] = true
		q[x.Internal] = true
	}
	for _, x := range md.RemovedNodes {
		q[x.Internal] = true
	}
	f := o.fenced[e.Term]
	nf := 0
	for n := range f {
		if q[n] {
			nf++
		}
	}
	if nf < len(q)/2+1 {
		s.Fail("leader-without-fenced-majority", fmt.Sprintf("BecomeLeader(term %d) sent to %s with %d of %d nodes fenced", e.Term, e.Node, nf, len(q)))
	}
	if !inEns[e.Node] {
		s.Fail("leader-outside-ensemble", fmt.Sprintf("BecomeLeader(term %d) sent to %s which is not in the stored ensemble %v", e.Term, e.Node, md.Ensemble))
	}
	lh, ok := f[e.Node]
	if !ok {
		s.Fail("leader-not-fenced", fmt.Sprintf("BecomeLeader(term %d) sent to %s which has not answered NewTerm(%d)", e.Term, e.Node, e.Term))
		return
	}
	for fn, fh := range e.FollowerMap {
		if !inEns[fn] {
			s.Fail("follower-outside-ensemble", fmt.Sprintf("BecomeLeader(term %d) lists follower %s which is not in the stored ensemble %v", e.Term, fn, md.Ensemble))
		}
		if headLess(lh, fh) {
			s.Fail("leader-not-best-log", fmt.Sprintf("BecomeLeader(term %d): leader %s head (%d,%d) is behind follower %s head (%d,%d)", e.Term, e.Node, lh.Term, lh.Offset, fn, fh.Term, fh.Offset))
		}
	}
	for n, h := range f {
		if inEns[n] && headLess(lh, h) {
			s.Fail("leader-not-best-log", fmt.Sprintf("BecomeLeader(term %d): leader %s head (%d,%d) is behind fenced ensemble member %s head (%d,%d)", e.Term, e.Node, lh.Term, lh.Offset, n, h.Term, h.Offset))
		}
	}
}

func (o *ElectionOracle) Point(s *vsched.Sched) {
	for _, name := range o.c.Order {
		n := o.c.Nodes[name]
		t, st, ok := PeekNode(n)
		if !ok {
			continue
		}
		if last, seen := o.lastT[name]; seen && t < last {
			s.Fail("node-term-decreased", fmt.Sprintf("node %s term went from %d to %d", name, last, t))
		}
		o.lastT[name] = t
		if st == proto.ServingStatus_LEADER {
			m := o.leaders[t]
			if m == nil {
				m = map[string]bool{}
				o.leaders[t] = m
			}
			if !m[name] {
				m[name] = true
				if len(m) > 1 {
					var ns []string
					for k := range m {
						ns = append(ns, k)
					}
					sort.Strings(ns)
					s.Fail("two-leaders-in-term", fmt.Sprintf("term %d has been led by %v", t, ns))
				}
			}
		}
	}
}

func (o *ElectionOracle) Final(s *vsched.Sched, final string) {}

// =====================================================================================
// C01 durability of acknowledged writes

type DurabilityOracle struct {
	c   *Cluster
	obs *Obs
}

func (o *DurabilityOracle) Attach(c *Cluster, obs *Obs) {
	o.c, o.obs = c, obs
	prev := c.OnRPC
	c.OnRPC = func(e Event) {
		if prev != nil {
			prev(e)
		}
		if e.Kind == "resp:BecomeLeader" && e.Err == "" {
			o.check(c.S, e.Node, e.SentStep, fmt.Sprintf("leader %s of term %d right after BecomeLeader", e.Node, e.Term))
		}
	}
}

func (o *DurabilityOracle) Point(*vsched.Sched) {}

// check verifies on node's DB every write acknowledged before step `before`.
func (o *DurabilityOracle) check(s *vsched.Sched, node string, before int, where string) {
	n := o.c.Nodes[node]
	if n == nil || !n.Up {
		return
	}
	lc, _ := server.VerifControllers(n.Srv, Shard)
	if lc == nil {
		return
	}
	db := server.VerifLeaderDB(lc)
	if db == nil {
		return
	}
	for _, op := range o.obs.Ops {
		if op.Kind != "put" || !op.OK || op.Return == 0 || op.Return >= before {
			continue
		}
		g, err := db.Get(&proto.GetRequest{Key: op.Key, IncludeValue: true})
		if err != nil {
			continue
		}
		if g.Status != proto.Status_OK {
			s.Fail("acked-write-lost", fmt.Sprintf("put %s=%s acknowledged by %s (version %d) is missing on %s", op.Key, op.Value, op.Node, op.Version, where))
			continue
		}
		if g.Version.VersionId < op.Version || (g.Version.VersionId == op.Version && string(g.Value) != op.Value) {
			s.Fail("acked-write-lost", fmt.Sprintf("put %s=%s acknowledged by %s (version %d) was replaced by an older or different write on %s: value %q version %d",
				op.Key, op.Value, op.Node, op.Version, where, g.Value, g.Version.VersionId))
		}
	}
}

func (o *DurabilityOracle) Final(s *vsched.Sched, final string) {
	o.check(s, final, math.MaxInt, "the final leader "+final)
}

// =====================================================================================
// C02 linearizability (per key) + no read of rolled-back data

type LinOracle struct {
	c   *Cluster
	obs *Obs
	// term leadership timeline for the stale-read exemption
	firstLeaderStep map[int64]int
}

func (o *LinOracle) Attach(c *Cluster, obs *Obs) {
	o.c, o.obs = c, obs
	o.firstLeaderStep = map[int64]int{}
}

func (o *LinOracle) Point(s *vsched.Sched) {
	for _, name := range o.c.Order {
		t, st, ok := PeekNode(o.c.Nodes[name])
		if ok && st == proto.ServingStatus_LEADER {
			if _, seen := o.firstLeaderStep[t]; !seen {
				o.firstLeaderStep[t] = s.Steps()
			}
		}
	}
}

type linIn struct {
	put bool
	val string
}
type linOut struct {
	unknown bool
	found   bool
	val     string
	ver     int64
}
type linState struct {
	found bool
	val   string
	ver   int64
}

var linModel = porcupine.Model{
	Init: func() interface{} { return linState{ver: -1} },
	Step: func(st, in, out interface{}) (bool, interface{}) {
		s := st.(linState)
		i := in.(linIn)
		o := out.(linOut)
		if i.put {
			if o.unknown {
				// effect applied; the op may be linearized at the very end if it never happened
				return true, linState{found: true, val: i.val, ver: s.ver + 1}
			}
			// version ids are strictly increasing along the linearization
			if o.ver <= s.ver {
				return false, s
			}
			return true, linState{found: true, val: i.val, ver: o.ver}
		}
		if o.unknown {
			return true, s
		}
		if o.found != s.found {
			return false, s
		}
		if o.found && o.val != s.val {
			return false, s
		}
		return true, s
	},
	Equal: func(a, b interface{}) bool {
		x, y := a.(linState), b.(linState)
		return x.found == y.found && x.val == y.val
	},
}

func (o *LinOracle) Final(s *vsched.Sched, final string) {
	// committed log of the final leader: which (key,value) puts survived
	committed := map[string]bool{}
	if lg := NodeLog(o.c, final); lg != nil {
		for _, e := range lg.Entries {
			lev := &proto.LogEntryValue{}
			if lev.UnmarshalVT(e.Value) != nil {
				continue
			}
			for _, w := range lev.GetRequests().GetWrites() {
				for _, p := range w.Puts {
					committed[p.Key+"\x00"+string(p.Value)] = true
				}
			}
		}
	}
	// which term served each read: a read served by a node whose term is older than a term
	// that already had a leader when the read was invoked is a (permitted) stale read
	byKey := map[string][]porcupine.Operation{}
	for _, op := range o.obs.Ops {
		if op.Return == 0 {
			op.Unknown = true
		}
		ret := int64(op.Return)
		if op.Unknown {
			ret = math.MaxInt64 / 2
		}
		switch op.Kind {
		case "put":
			byKey[op.Key] = append(byKey[op.Key], porcupine.Operation{ClientId: op.Client, Input: linIn{put: true, val: op.Value},
				Call: int64(op.Invoke), Output: linOut{unknown: op.Unknown || !op.OK, ver: op.Version}, Return: ret})
		case "get":
			if op.Unknown {
				continue
			}
			found := op.Status == proto.Status_OK.String()
			if found && !committed[op.Key+"\x00"+op.ReadVal] {
				s.Fail("read-of-rolled-back-data", fmt.Sprintf("get %s on %s returned %q (version %d) which is not in the final committed log", op.Key, op.Node, op.ReadVal, op.Version))
				continue
			}
			if o.stale(op) {
				continue
			}
			byKey[op.Key] = append(byKey[op.Key], porcupine.Operation{ClientId: op.Client, Input: linIn{},
				Call: int64(op.Invoke), Output: linOut{found: found, val: op.ReadVal, ver: op.Version}, Return: ret})
		}
	}
	for k, ops := range byKey {
		if !porcupine.CheckOperations(linModel, ops) {
			var d []string
			for _, op := range ops {
				d = append(d, fmt.Sprintf("[%d,%d] %+v -> %+v", op.Call, op.Return, op.Input, op.Output))
			}
			s.Fail("not-linearizable", fmt.Sprintf("history of key %s is not linearizable: %v", k, d))
		}
	}
}

func (o *LinOracle) stale(op *ClientOp) bool {
	// term of the serving node at invoke time is not recorded per op; approximate by the
	// highest term led by op.Node before the invocation
	servingTerm := int64(-1)
	for t := range o.firstLeaderStep {
		_ = t
	}
	for _, e := range o.c.Events {
		if e.Kind == "resp:BecomeLeader" && e.Err == "" && e.Node == op.Node && e.Step <= op.Return && e.Term > servingTerm {
			servingTerm = e.Term
		}
	}
	for t, step := range o.firstLeaderStep {
		if t > servingTerm && step <= op.Invoke {
			return true
		}
	}
	return false
}

// =====================================================================================
// C03 replica logs never diverge at or below an acknowledged offset

type LogOracle struct {
	c *Cluster
}

func (o *LogOracle) Attach(c *Cluster, obs *Obs) {
	o.c = c
	c.Repl.OnAckSend = func(st *RepStream, a *proto.Ack) {
		s := c.S
		// the leader that owns this stream
		var leader *Node
		for _, n := range c.Nodes {
			if n.Group == st.ownerGrp {
				leader = n
			}
		}
		fl := NodeLog(c, st.follower)
		if leader == nil || fl == nil || leader.Walf == nil || leader.Walf.Current() == nil {
			return
		}
		ll := leader.Walf.Current()
		if fl.Synced() < a.Offset {
			s.Fail("ack-before-durable", fmt.Sprintf("follower %s acknowledged offset %d on a term-%d stream but has only synced up to %d", st.follower, a.Offset, st.term, fl.Synced()))
		}
		for off := a.Offset; off >= 0 && off > a.Offset-64; off-- {
			le, lok := ll.Entries[off]
			fe, fok := fl.Entries[off]
			if !lok {
				continue // trimmed / not held by the leader any more
			}
			if !fok {
				if off > fl.Last {
					s.Fail("ack-of-missing-entry", fmt.Sprintf("follower %s acknowledged offset %d to the term-%d leader %s but its log ends at %d", st.follower, a.Offset, st.term, leader.Name, fl.Last))
				}
				continue
			}
			if !SameEntry(le, fe) {
				s.Fail("ack-with-divergent-log", fmt.Sprintf("follower %s acknowledged offset %d to the term-%d leader %s but stores (term %d, %d bytes) at offset %d where the leader has (term %d, %d bytes)",
					st.follower, a.Offset, st.term, leader.Name, fe.Term, len(fe.Value), off, le.Term, len(le.Value)))
				break
			}
		}
	}
}

func (o *LogOracle) Point(*vsched.Sched) {}

// FoldOracle is the state-machine half alone (C06): database == fold of the committed log.
type FoldOracle struct{ LogOracle }

func (o *FoldOracle) Attach(c *Cluster, obs *Obs)         { o.c = c }
func (o *FoldOracle) Final(s *vsched.Sched, final string) { o.foldCheck(s, final) }

// foldCheck compares every node's database with the fold of the final leader's log up to the
// commit offset stored in that database ("the state they apply from it is the same").
func (o *LogOracle) foldCheck(s *vsched.Sched, final string) {
	fl := NodeLog(o.c, final)
	if fl == nil {
		return
	}
	type nd struct {
		name   string
		db     kv.DB
		commit int64
	}
	var nodes []nd
	for _, name := range o.c.Order {
		n := o.c.Nodes[name]
		if !n.Up || n.Srv == nil {
			continue
		}
		lc, fc := server.VerifControllers(n.Srv, Shard)
		var db kv.DB
		if lc != nil {
			db = server.VerifLeaderDB(lc)
		} else if fc != nil {
			db = server.VerifFollowerDB(fc)
		}
		if db == nil {
			continue
		}
		c, err := db.ReadCommitOffset()
		if err != nil {
			continue
		}
		nodes = append(nodes, nd{name, db, c})
	}
	sort.Slice(nodes, func(i, j int) bool { return nodes[i].commit < nodes[j].commit })
	mf := oxhMemFactory()
	defer mf.Close()
	ref, err := kv.NewDB(NS, Shard, mf, time.Hour, time2.SystemClock)
	if err != nil {
		return
	}
	defer ref.Close()
	next := int64(0)
	for _, n := range nodes {
		for ; next <= n.commit; next++ {
			e, ok := fl.Entries[next]
			if !ok {
				return // trimmed or not held: nothing to compare against
			}
			lev := &proto.LogEntryValue{}
			if lev.UnmarshalVT(e.Value) != nil {
				return
			}
			for _, w := range lev.GetRequests().GetWrites() {
				if _, err := ref.ProcessWrite(w, e.Offset, e.Timestamp, server.WrapperUpdateOperationCallback); err != nil && !kv.IsInvalidRequestError(err) {
					return
				}
			}
		}
		want := dumpForCompare(ref)
		got := dumpForCompare(n.db)
		if want != got {
			s.Fail("state-differs-from-log-fold", fmt.Sprintf("database of %s (stored commit offset %d) differs from applying entries 0..%d of the final leader's log in order:\n have: %s\n want: %s", n.name, n.commit, n.commit, got, want))
		}
	}
}

func dumpForCompare(d kv.DB) string {
	var b strings.Builder
	for _, l := range dumpDB(d) {
		b.WriteString(l)
		b.WriteString(" | ")
	}
	return b.String()
}

func (o *LogOracle) Final(s *vsched.Sched, final string) {
	o.foldCheck(s, final)
	fl := NodeLog(o.c, final)
	if fl == nil {
		return
	}
	lc, _ := server.VerifControllers(o.c.Nodes[final].Srv, Shard)
	if lc == nil {
		return
	}
	_, _, lcommit, _ := server.VerifPeekTracker(lc)
	for _, name := range o.c.Order {
		if name == final {
			continue
		}
		n := o.c.Nodes[name]
		if !n.Up || n.Srv == nil {
			continue
		}
		_, fc := server.VerifControllers(n.Srv, Shard)
		if fc == nil {
			continue
		}
		_, _, fcommit := server.VerifPeekFollower(fc)
		nl := NodeLog(o.c, name)
		if nl == nil {
			continue
		}
		m := fcommit
		if lcommit < m {
			m = lcommit
		}
		for off := int64(0); off <= m; off++ {
			a, aok := fl.Entries[off]
			b, bok := nl.Entries[off]
			if aok && bok && !SameEntry(a, b) {
				s.Fail("committed-logs-diverge", fmt.Sprintf("offset %d (<= commit offsets %d/%d) differs between final leader %s (term %d) and %s (term %d)", off, lcommit, fcommit, final, a.Term, name, b.Term))
				break
			}
		}
	}
}

// =====================================================================================
// C19: the stored ensemble of the shard is RF distinct servers, at every BecomeLeader and at the end

type EnsembleOracle struct {
	c  *Cluster
	s  *vsched.Sched
	rf int
}

func (o *EnsembleOracle) Attach(c *Cluster, obs *Obs) {
	o.c, o.s, o.rf = c, c.S, 3
	prev := c.OnRPC
	c.OnRPC = func(e Event) {
		if prev != nil {
			prev(e)
		}
		if e.Kind == "send:BecomeLeader" {
			o.check(fmt.Sprintf("when BecomeLeader(term %d) is sent to %s", e.Term, e.Node))
		}
	}
}

func (o *EnsembleOracle) check(when string) {
	md, ok := o.c.StoredMetadata()
	if !ok {
		return
	}
	seen := map[string]bool{}
	var ids []string
	dup := false
	for _, x := range md.Ensemble {
		id := x.GetIdentifier()
		if seen[id] {
			dup = true
		}
		seen[id] = true
		ids = append(ids, id)
	}
	if len(ids) != o.rf || dup {
		o.s.Fail("ensemble-not-rf-distinct", fmt.Sprintf("%s the stored ensemble of the shard is %v: not %d distinct servers", when, ids, o.rf))
	}
}

func (o *EnsembleOracle) Final(s *vsched.Sched, final string) { o.check("at the end") }

func (o *EnsembleOracle) Point(*vsched.Sched) {}
