// Package oxc holds the pieces shared by the scheduler (E2) harnesses: in-process
// replication transport, per-execution storage factories, observers.
// Everything here runs on scheduled threads and uses the vsched primitives explicitly.
package oxc

import (
	"context"
	"errors"
	"io"
	"strconv"

	"google.golang.org/grpc"
	"google.golang.org/grpc/codes"
	"google.golang.org/grpc/health/grpc_health_v1"
	"google.golang.org/grpc/metadata"
	"google.golang.org/grpc/status"

	"github.com/oxia-db/oxia/proto"
	"github.com/oxia-db/oxia/server"
	"github.com/oxia-db/oxia/zzverif/vsched"
)

// FollowerEndpoint is what a replication peer exposes (a real follower controller, a
// real server's internal RPC surface, or a scripted follower).
type FollowerEndpoint interface {
	Replicate(stream proto.OxiaLogReplication_ReplicateServer) error
	SendSnapshot(stream proto.OxiaLogReplication_SendSnapshotServer) error
	Truncate(req *proto.TruncateRequest) (*proto.TruncateResponse, error)
}

// Net is an in-process server.ReplicationRpcProvider.
type Net struct {
	Peers map[string]FollowerEndpoint
	// Down marks peers that refuse connections.
	Down map[string]bool
	// OnAppend / OnAck observe messages as they are handed to the receiving side.
	OnAppend func(follower string, a *proto.Append)
	OnAck    func(follower string, term int64, a *proto.Ack)
	// OnAckSend observes an ack at the instant the follower hands it to the stream.
	OnAckSend func(st *RepStream, a *proto.Ack)
	// Blocked reports a network partition between the caller (by thread group) and a follower.
	Blocked func(ownerGrp int, follower string) bool
	Streams []*RepStream
	// BreakBudget: how many times a replication connection may drop under a message; where is a
	// choice the explorer enumerates
	BreakBudget int
	// mdOverride: set by the real-provider path: the handler sees exactly the headers the caller attached
	mdOverride metadata.MD
}

type grouper interface{ group() int }

func NewNet() *Net { return &Net{Peers: map[string]FollowerEndpoint{}, Down: map[string]bool{}} }

func (n *Net) Close() error { return nil }

var ErrUnavailable = status.Error(codes.Unavailable, "peer unavailable")

type RepStream struct {
	net        *Net
	follower   string
	term       int64
	ctx        context.Context
	cancel     context.CancelFunc
	toServer   chan *proto.Append
	toClient   chan *proto.Ack
	done       chan struct{} // closed when the server handler returned
	serverErr  error
	sendClosed bool
	ownerGrp   int
}

func (n *Net) blocked(follower string) bool {
	if n.Blocked == nil {
		return false
	}
	if s := vsched.Active(); s != nil && s.Cur() != nil {
		return n.Blocked(s.Cur().Group, follower)
	}
	return false
}

func (n *Net) GetReplicateStream(ctx context.Context, follower string, namespace string, shard int64, term int64) (proto.OxiaLogReplication_ReplicateClient, error) {
	ep, ok := n.Peers[follower]
	if !ok || n.Down[follower] || n.blocked(follower) {
		return nil, ErrUnavailable
	}
	md := metadata.New(map[string]string{"shard-id": itoa(shard), "term": itoa(term), "namespace": namespace})
	if n.mdOverride != nil {
		md = n.mdOverride
	}
	sctx, cancel := context.WithCancel(metadata.NewIncomingContext(ctx, md))
	st := &RepStream{net: n, follower: follower, term: term, ctx: sctx, cancel: cancel,
		toServer: make(chan *proto.Append, 1024), toClient: make(chan *proto.Ack, 1024), done: make(chan struct{})}
	n.Streams = append(n.Streams, st)
	sc := vsched.Active()
	st.ownerGrp = sc.Cur().Group
	t := sc.Go("replicate@"+follower, func() {
		err := ep.Replicate(&repServer{st})
		st.serverErr = err
		st.cancel()
		vsched.Close(st.done)
	})
	if g, ok := ep.(grouper); ok {
		t.Group = g.group()
	}
	return &repClient{st}, nil
}

// Break severs the stream (network failure): both sides see an error.
func (st *RepStream) Break() { st.cancel() }

func itoa(v int64) string {
	if v == 0 {
		return "0"
	}
	neg := v < 0
	if neg {
		v = -v
	}
	var b [24]byte
	i := len(b)
	for v > 0 {
		i--
		b[i] = byte('0' + v%10)
		v /= 10
	}
	if neg {
		i--
		b[i] = '-'
	}
	return string(b[i:])
}

type repClient struct{ st *RepStream }

func (c *repClient) Send(a *proto.Append) error {
	if c.st.sendClosed {
		return status.Error(codes.Internal, "SendMsg called after CloseSend")
	}
	if c.st.ctx.Err() != nil {
		if c.st.serverErr != nil {
			return c.st.serverErr
		}
		return status.Error(codes.Canceled, "stream closed")
	}
	if c.st.net.breakNow() {
		// the connection drops under this message: it is lost and both sides see the stream fail
		c.st.Break()
		return status.Error(codes.Unavailable, "transport is closing")
	}
	// deep copy like a wire would
	vsched.Send(c.st.toServer)(a.CloneVT())
	return nil
}

// breakNow decides, as an explorable environment choice, whether the connection drops at this message
// (BreakBudget drops per execution at most; each costs one deviation).
func (n *Net) breakNow() bool {
	if n.BreakBudget <= 0 {
		return false
	}
	sc := vsched.Active()
	if sc == nil || sc.Choose(2, false) == 0 {
		return false
	}
	n.BreakBudget--
	return true
}

func (c *repClient) Recv() (*proto.Ack, error) {
	r := vsched.Select(false, vsched.RecvCase(c.st.toClient), vsched.RecvCase(c.st.done), vsched.RecvCase(c.st.ctx.Done()))
	switch r.I {
	case 0:
		a := r.Val.(*proto.Ack)
		if c.st.net.OnAck != nil {
			c.st.net.OnAck(c.st.follower, c.st.term, a)
		}
		return a, nil
	case 1:
		// drain acks that were sent before the handler returned
		r2 := vsched.Select(true, vsched.RecvCase(c.st.toClient))
		if r2.I == 0 {
			return r2.Val.(*proto.Ack), nil
		}
		if c.st.serverErr != nil {
			return nil, c.st.serverErr
		}
		return nil, io.EOF
	default:
		return nil, status.Error(codes.Canceled, "context canceled")
	}
}

func (c *repClient) Header() (metadata.MD, error) { return nil, nil }
func (c *repClient) Trailer() metadata.MD         { return nil }
func (c *repClient) CloseSend() error {
	if !c.st.sendClosed {
		c.st.sendClosed = true
		// half-close marker (the channel itself is never closed: a Send racing with CloseSend
		// must fail with an error, not panic like a raw Go channel)
		vsched.Send(c.st.toServer)(nil)
	}
	return nil
}
func (c *repClient) Context() context.Context { return c.st.ctx }
func (c *repClient) SendMsg(any) error        { return errors.New("not supported") }
func (c *repClient) RecvMsg(any) error        { return errors.New("not supported") }

type repServer struct{ st *RepStream }

func (s *repServer) Recv() (*proto.Append, error) {
	r := vsched.Select(false, vsched.RecvCase(s.st.toServer), vsched.RecvCase(s.st.ctx.Done()))
	if r.I == 0 {
		a, _ := r.Val.(*proto.Append)
		if !r.Ok || a == nil {
			return nil, io.EOF
		}
		if s.st.net.OnAppend != nil {
			s.st.net.OnAppend(s.st.follower, a)
		}
		return a, nil
	}
	return nil, status.Error(codes.Canceled, "context canceled")
}

func (s *repServer) Send(a *proto.Ack) error {
	if s.st.ctx.Err() != nil {
		return status.Error(codes.Canceled, "context canceled")
	}
	if s.st.net.OnAckSend != nil {
		s.st.net.OnAckSend(s.st, a)
	}
	if s.st.net.breakNow() {
		s.st.Break()
		return status.Error(codes.Unavailable, "transport is closing")
	}
	vsched.Send(s.st.toClient)(a.CloneVT())
	return nil
}

func (s *repServer) SetHeader(metadata.MD) error  { return nil }
func (s *repServer) SendHeader(metadata.MD) error { return nil }
func (s *repServer) SetTrailer(metadata.MD)       {}
func (s *repServer) Context() context.Context     { return s.st.ctx }
func (s *repServer) SendMsg(any) error            { return errors.New("not supported") }
func (s *repServer) RecvMsg(any) error            { return errors.New("not supported") }

// ---- snapshot streams ---------------------------------------------------------

type snapStream struct {
	net    *Net
	ctx    context.Context
	cancel context.CancelFunc
	chunks chan *proto.SnapshotChunk
	resp   chan *proto.SnapshotResponse
	done   chan struct{}
	err    error
	closed bool
}

func (n *Net) SendSnapshot(ctx context.Context, follower string, namespace string, shard int64, term int64) (proto.OxiaLogReplication_SendSnapshotClient, error) {
	ep, ok := n.Peers[follower]
	if !ok || n.Down[follower] || n.blocked(follower) {
		return nil, ErrUnavailable
	}
	md := metadata.New(map[string]string{"shard-id": itoa(shard), "term": itoa(term), "namespace": namespace})
	if n.mdOverride != nil {
		md = n.mdOverride
	}
	sctx, cancel := context.WithCancel(metadata.NewIncomingContext(ctx, md))
	st := &snapStream{net: n, ctx: sctx, cancel: cancel, chunks: make(chan *proto.SnapshotChunk, 4096), resp: make(chan *proto.SnapshotResponse, 1), done: make(chan struct{})}
	sc := vsched.Active()
	t := sc.Go("snapshot@"+follower, func() {
		st.err = ep.SendSnapshot(&snapServer{st})
		vsched.Close(st.done)
	})
	if g, ok := ep.(grouper); ok {
		t.Group = g.group()
	}
	return &snapClient{st}, nil
}

type snapClient struct{ st *snapStream }

func (c *snapClient) Send(ch *proto.SnapshotChunk) error {
	if c.st.ctx.Err() != nil {
		return status.Error(codes.Canceled, "stream closed")
	}
	if c.st.net != nil && c.st.net.breakNow() {
		// the connection drops in the middle of the snapshot transfer
		c.st.cancel()
		return status.Error(codes.Unavailable, "transport is closing")
	}
	vsched.Send(c.st.chunks)(ch.CloneVT())
	return nil
}

func (c *snapClient) CloseAndRecv() (*proto.SnapshotResponse, error) {
	if !c.st.closed {
		c.st.closed = true
		vsched.Close(c.st.chunks)
	}
	r := vsched.Select(false, vsched.RecvCase(c.st.resp), vsched.RecvCase(c.st.done), vsched.RecvCase(c.st.ctx.Done()))
	switch r.I {
	case 0:
		return r.Val.(*proto.SnapshotResponse), nil
	case 1:
		r2 := vsched.Select(true, vsched.RecvCase(c.st.resp))
		if r2.I == 0 {
			return r2.Val.(*proto.SnapshotResponse), nil
		}
		if c.st.err != nil {
			return nil, c.st.err
		}
		return nil, io.EOF
	default:
		return nil, status.Error(codes.Canceled, "context canceled")
	}
}

func (c *snapClient) Header() (metadata.MD, error) { return nil, nil }
func (c *snapClient) Trailer() metadata.MD         { return nil }
func (c *snapClient) CloseSend() error             { return nil }
func (c *snapClient) Context() context.Context     { return c.st.ctx }
func (c *snapClient) SendMsg(any) error            { return errors.New("not supported") }
func (c *snapClient) RecvMsg(any) error            { return errors.New("not supported") }

type snapServer struct{ st *snapStream }

func (s *snapServer) Recv() (*proto.SnapshotChunk, error) {
	r := vsched.Select(false, vsched.RecvCase(s.st.chunks), vsched.RecvCase(s.st.ctx.Done()))
	if r.I == 0 {
		if !r.Ok {
			return nil, io.EOF
		}
		return r.Val.(*proto.SnapshotChunk), nil
	}
	return nil, status.Error(codes.Canceled, "context canceled")
}

func (s *snapServer) SendAndClose(r *proto.SnapshotResponse) error {
	vsched.Send(s.st.resp)(r)
	return nil
}

func (s *snapServer) SetHeader(metadata.MD) error  { return nil }
func (s *snapServer) SendHeader(metadata.MD) error { return nil }
func (s *snapServer) SetTrailer(metadata.MD)       {}
func (s *snapServer) Context() context.Context     { return s.st.ctx }
func (s *snapServer) SendMsg(any) error            { return errors.New("not supported") }
func (s *snapServer) RecvMsg(any) error            { return errors.New("not supported") }

func (n *Net) Truncate(follower string, req *proto.TruncateRequest) (*proto.TruncateResponse, error) {
	ep, ok := n.Peers[follower]
	if !ok || n.Down[follower] || n.blocked(follower) {
		return nil, ErrUnavailable
	}
	if s := vsched.Active(); s != nil {
		s.Step(0)
	}
	return ep.Truncate(req.CloneVT())
}

// ---- the real replication RPC provider over this network ------------------------------

// Provider returns the repository's own ReplicationRpcProvider with this network as its client pool: the
// namespace / shard / term headers of the streams are then built by the real code and reach the follower the
// way gRPC delivers them (outgoing metadata of the caller = incoming metadata of the handler).
func (n *Net) Provider() server.ReplicationRpcProvider {
	return server.VerifReplicationProvider(netPool{n})
}

type netPool struct{ n *Net }

func (netPool) Close() error { return nil }
func (netPool) Clear(string) {}
func (netPool) GetClientRpc(string) (proto.OxiaClientClient, error) {
	return nil, errors.New("not supported")
}
func (netPool) GetHealthRpc(string) (grpc_health_v1.HealthClient, io.Closer, error) {
	return nil, nil, errors.New("not supported")
}
func (netPool) GetCoordinationRpc(string) (proto.OxiaCoordinationClient, error) {
	return nil, errors.New("not supported")
}
func (p netPool) GetReplicationRpc(target string) (proto.OxiaLogReplicationClient, error) {
	return netReplClient{p.n, target}, nil
}

type netReplClient struct {
	n        *Net
	follower string
}

func mdOf(ctx context.Context) (ns string, shard, term int64) {
	md, _ := metadata.FromOutgoingContext(ctx)
	get := func(k string) string {
		if v := md.Get(k); len(v) > 0 {
			return v[0]
		}
		return ""
	}
	shard, term = -1, -1
	if v, err := strconv.ParseInt(get("shard-id"), 10, 64); err == nil {
		shard = v
	}
	if v, err := strconv.ParseInt(get("term"), 10, 64); err == nil {
		term = v
	}
	return get("namespace"), shard, term
}

func (c netReplClient) Truncate(_ context.Context, in *proto.TruncateRequest, _ ...grpc.CallOption) (*proto.TruncateResponse, error) {
	return c.n.Truncate(c.follower, in)
}

func (c netReplClient) Replicate(ctx context.Context, _ ...grpc.CallOption) (proto.OxiaLogReplication_ReplicateClient, error) {
	md, _ := metadata.FromOutgoingContext(ctx)
	c.n.mdOverride = md.Copy()
	defer func() { c.n.mdOverride = nil }()
	ns, shard, term := mdOf(ctx)
	return c.n.GetReplicateStream(ctx, c.follower, ns, shard, term)
}

func (c netReplClient) SendSnapshot(ctx context.Context, _ ...grpc.CallOption) (proto.OxiaLogReplication_SendSnapshotClient, error) {
	md, _ := metadata.FromOutgoingContext(ctx)
	c.n.mdOverride = md.Copy()
	defer func() { c.n.mdOverride = nil }()
	ns, shard, term := mdOf(ctx)
	return c.n.SendSnapshot(ctx, c.follower, ns, shard, term)
}
