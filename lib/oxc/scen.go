package oxc

import (
	"context"
	"fmt"
	"os"
	"sort"
	"strings"
	"time"

	"github.com/oxia-db/oxia/coordinator/model"
	"github.com/oxia-db/oxia/proto"
	"github.com/oxia-db/oxia/server"
	"github.com/oxia-db/oxia/zzverif/vsched"
)

// ClientOp is one client operation as observed at the service boundary.
type ClientOp struct {
	Client  int
	Kind    string // put, get, delete
	Key     string
	Value   string
	Invoke  int // scheduler step at invocation
	Return  int // scheduler step at return (0 = never returned)
	Node    string
	OK      bool   // definite success
	Unknown bool   // outcome unknown to the client (error / no answer)
	Status  string // proto status for definite answers
	Version int64
	ReadVal string
	Err     string
}

type Obs struct {
	Ops []*ClientOp
}

// ScenarioSpec selects the fault that accompanies the client workload.
type ScenarioSpec struct {
	Name     string
	Fault    string // none | leader-crash | leader-crash-restart | follower-crash-restart | coord-crash | spurious-failover | swap | leader-crash-swap
	Clients  int
	PerCli   int
	SyncData bool
	Reads    bool // clients also read the keys (C02)
	SameKeys bool // clients collide on the same keys (C02)
	RealDisk bool // databases on real directories: snapshots carry content (see oxc.RealDiskNext)
	LossyRPC int  // that many coordinator RPC answers may be lost; which ones is explored
	Breaks   int  // that many times a replication connection may drop under a message; where is explored
}

// Monitor is evaluated at every scheduling point and at the end.
type Oracle interface {
	Attach(c *Cluster, obs *Obs)
	Point(s *vsched.Sched)
	Final(s *vsched.Sched, finalLeader string)
}

var curOracles []Oracle

// PointHook is wired into vsched.Config.OnPoint by the harness binaries.
func PointHook(s *vsched.Sched) {
	for _, o := range curOracles {
		o.Point(s)
	}
}

// putSeq varies the size of the shared record from one request to the next (reset per execution)
var putSeq int

func put(key, val string) *proto.WriteRequest {
	// every record also declares a secondary-index entry, so that the state compared by the fold
	// oracle includes what the index callbacks write on each application route
	// ... and every request holds a second operation that overwrites one shared record with a
	// longer value each time: replaying a multi-operation request (decode once, apply the
	// operations one after the other against existing records of different sizes) is a
	// route of its own on leaders, followers and elected leaders
	putSeq++
	big := val + "/" + strings.Repeat("0123456789", 3+putSeq%3)
	return &proto.WriteRequest{Shard: i64p(Shard), Puts: []*proto.PutRequest{
		{Key: key, Value: []byte(val), SecondaryIndexes: []*proto.SecondaryIndex{{IndexName: "byval", SecondaryKey: val}}},
		{Key: "zz-shared", Value: []byte(big)}}}
}

// Body builds the harness body of a cluster scenario.
func Body(spec ScenarioSpec, mk func() []Oracle) func(s *vsched.Sched) {
	return func(s *vsched.Sched) {
		s.Explore(false)
		names := []string{"n1", "n2", "n3"}
		putSeq = 0
		RealDiskNext = spec.RealDisk
		c := NewCluster(s, names, spec.SyncData)
		RealDiskNext = false
		if strings.Contains(spec.Fault, "swap") {
			c.AddNode("n4")
		}
		obs := &Obs{}
		specObs = obs
		cancelCtx, cancelFn = nil, nil
		if spec.Fault == "client-cancel" {
			cancelCtx, cancelFn = context.WithCancel(context.Background())
		}
		oracles := mk()
		for _, o := range oracles {
			o.Attach(c, obs)
		}
		curOracles = oracles
		s.OnEnd(func(vsched.Outcome) { curOracles = nil })
		c.StartCoordinator(names)
		// initial election runs under the default schedule; exploration starts from the
		// steady state (non-initial state), except for the coordinator-crash scenario
		if !WaitLeader(c, s, 20) {
			s.Fail("harness-no-initial-leader", "initial election did not complete")
			return
		}
		s.Settle()
		s.Explore(true)
		c.LossBudget = spec.LossyRPC
		c.Repl.BreakBudget = spec.Breaks
		for cl := 0; cl < spec.Clients; cl++ {
			cl := cl
			vsched.Go(func() { clientLoop(c, s, obs, spec, cl) })
		}
		faultDone := false
		if spec.Fault != "none" {
			vsched.Go(func() { faultThread(c, s, spec); faultDone = true })
		}
		s.Settle()
		// let timers (retries, backoffs, grace periods) play out, still exploring
		for i := 0; i < 6; i++ {
			s.Sleep(2 * time.Second)
			s.Settle()
		}
		// a scripted fault that spans RPC timeouts takes longer than that
		for i := 0; i < 150 && (spec.Fault == "failed-become-leader" || spec.Fault == "swap-snapshot-lead" || spec.Fault == "swap-holder") && !faultDone; i++ {
			s.Sleep(2 * time.Second)
			s.Settle()
		}
		s.Explore(false)
		c.LossBudget = 0
		c.Repl.BreakBudget = 0
		// ---- heal and establish ground truth
		for _, name := range c.Order {
			if !c.Nodes[name].Up {
				c.StartNode(name)
			}
		}
		if c.SC == nil {
			c.StartCoordinator(names)
		}
		final := ""
		restarted := false
		for i := 0; i < 60; i++ {
			s.Sleep(2 * time.Second)
			s.Settle()
			md, ok := c.StoredMetadata()
			if ok && md.Leader != nil && md.Status == model.ShardStatusSteadyState {
				l, t := c.LeaderByStatus()
				if l == md.Leader.Internal && t == md.Term {
					final = l
					break
				}
			}
			if i == 20 && !restarted {
				// A failed node swap leaves the shard in Election state with nobody retrying (the
				// controller runs that election only once). That is an availability matter outside
				// the listed properties: heal it the way an operator would, by restarting the coordinator.
				restarted = true
				c.CrashCoordinator()
				c.StartCoordinator(names)
			}
		}
		if final == "" {
			md, _ := c.StoredMetadata()
			s.Fail("cluster-did-not-heal", fmt.Sprintf("no stable leader after healing all nodes: metadata=%+v blocked=%v", md, s.Blocked()))
			return
		}
		for _, o := range oracles {
			o.Final(s, final)
		}
		var sum []string
		for _, op := range obs.Ops {
			st := "ok"
			if op.Unknown {
				st = "unk"
			} else if !op.OK {
				st = op.Status
			}
			sum = append(sum, op.Kind+":"+st)
		}
		sort.Strings(sum)
		md, _ := c.StoredMetadata()
		s.Data = fmt.Sprintf("%s|term=%d leader=%s", strings.Join(sum, ","), md.Term, final)
	}
}

// WaitLeader lets virtual time pass until some node reports LEADER and the metadata is steady.
func WaitLeader(c *Cluster, s *vsched.Sched, rounds int) bool {
	for i := 0; i < rounds; i++ {
		s.Settle()
		md, ok := c.StoredMetadata()
		if ok && md.Leader != nil && md.Status == model.ShardStatusSteadyState {
			if l, _ := c.LeaderByStatus(); l != "" {
				return true
			}
		}
		s.Sleep(500 * time.Millisecond)
	}
	return false
}

func clientLoop(c *Cluster, s *vsched.Sched, obs *Obs, spec ScenarioSpec, cl int) {
	for j := 0; j < spec.PerCli; j++ {
		key := fmt.Sprintf("k%d-%d", cl, j)
		if spec.SameKeys {
			key = fmt.Sprintf("k%d", j%2)
		}
		val := fmt.Sprintf("v%d-%d", cl, j)
		doWrite(c, s, obs, cl, key, val)
		if spec.Reads {
			doRead(c, s, obs, cl, key)
		}
	}
}

// cancelCtx is the context of client 0's first write in the client-cancel scenario.
var cancelCtx context.Context
var cancelFn context.CancelFunc

func doWrite(c *Cluster, s *vsched.Sched, obs *Obs, cl int, key, val string) {
	for attempt := 0; attempt < 3; attempt++ {
		leader, _ := c.LeaderByStatus()
		if leader == "" {
			s.Sleep(300 * time.Millisecond)
			continue
		}
		// every attempt is its own operation with its own value tag: a retried write whose
		// first attempt was lost in doubt may legitimately take effect twice
		v := fmt.Sprintf("%s.a%d", val, attempt)
		op := &ClientOp{Client: cl, Kind: "put", Key: key, Value: v, Invoke: s.Steps(), Node: leader}
		obs.Ops = append(obs.Ops, op)
		ctx := context.Background()
		if cancelCtx != nil && cl == 0 && attempt == 0 {
			ctx = cancelCtx
		}
		resp, err := c.WriteCtx(ctx, leader, put(key, v))
		op.Return = s.Steps()
		if err != nil {
			op.Unknown = true
			op.Err = err.Error()
			s.Sleep(300 * time.Millisecond)
			continue
		}
		pr := resp.Puts[0]
		op.Status = pr.Status.String()
		if pr.Status == proto.Status_OK {
			op.OK = true
			op.Version = pr.Version.VersionId
		}
		return
	}
}

func doRead(c *Cluster, s *vsched.Sched, obs *Obs, cl int, key string) {
	leader, _ := c.LeaderByStatus()
	if leader == "" {
		return
	}
	op := &ClientOp{Client: cl, Kind: "get", Key: key, Invoke: s.Steps(), Node: leader}
	obs.Ops = append(obs.Ops, op)
	g, err := c.Get(leader, key)
	op.Return = s.Steps()
	if err != nil || g == nil {
		op.Unknown = true
		if err != nil {
			op.Err = err.Error()
		}
		return
	}
	op.Status = g.Status.String()
	op.OK = true
	if g.Status == proto.Status_OK {
		op.ReadVal = string(g.Value)
		op.Version = g.Version.VersionId
	}
}

// specObs lets the fault thread record the client operations it issues itself.
var specObs *Obs

// rollingIsolation chains failovers: in every round the current leader is partitioned away
// (from coordinator and peers) while a client write is in flight to it, the coordinator elects
// a new leader among the others, a write is acknowledged there, and the old leader comes back
// as a follower with a divergent, uncommitted tail. Each round excludes a different node.
func rollingIsolation(c *Cluster, s *vsched.Sched, obs *Obs, rounds int) {
	for r := 0; r < rounds; r++ {
		l, _ := c.LeaderByStatus()
		if l == "" || c.SC == nil {
			return
		}
		c.Isolate(l)
		r := r
		vsched.Go(func() {
			// never acknowledged: the isolated leader cannot reach a quorum
			op := &ClientOp{Client: 100 + r, Kind: "put", Key: fmt.Sprintf("stale%d", r), Value: "s", Invoke: s.Steps(), Node: l, Unknown: true}
			obs.Ops = append(obs.Ops, op)
			resp, err := c.Write(l, put(op.Key, op.Value))
			op.Return = s.Steps()
			if err == nil && resp.Puts[0].Status == proto.Status_OK {
				op.Unknown, op.OK, op.Version = false, true, resp.Puts[0].Version.VersionId
			}
		})
		s.Sleep(200 * time.Millisecond)
		c.SC.NodeBecameUnavailable(c.Nodes[l].Addr)
		nl := ""
		for i := 0; i < 40 && nl == ""; i++ {
			s.Sleep(500 * time.Millisecond)
			md, ok := c.StoredMetadata()
			if ok && md.Leader != nil && md.Leader.Internal != l && md.Status == model.ShardStatusSteadyState {
				if x, _ := c.LeaderByStatusExcept(l); x == md.Leader.Internal {
					nl = x
				}
			}
		}
		if nl == "" {
			return
		}
		op := &ClientOp{Client: r, Kind: "put", Key: fmt.Sprintf("acked%d", r), Value: fmt.Sprintf("a%d", r), Invoke: s.Steps(), Node: nl}
		obs.Ops = append(obs.Ops, op)
		resp, err := c.Write(nl, put(op.Key, op.Value))
		op.Return = s.Steps()
		if err != nil {
			op.Unknown, op.Err = true, err.Error()
		} else if resp.Puts[0].Status == proto.Status_OK {
			op.OK, op.Version, op.Status = true, resp.Puts[0].Version.VersionId, "OK"
		}
		c.Heal(l)
		// the old leader is fenced and re-attached by the coordinator's retry loop
		s.Sleep(4 * time.Second)
	}
}

// swapHolder: one follower is behind (the leader does not reach it), a write is acknowledged by the leader and
// the other follower; the coordinator then swaps that other follower - one of the two holders of the write -
// for a new node while it cannot reach the leader. Only the leader is out of reach (a minority): the write
// must still be there when the shard serves again.
func swapHolder(c *Cluster, s *vsched.Sched, obs *Obs) {
	l, _ := c.LeaderByStatus()
	if l == "" || c.SC == nil {
		return
	}
	var others []string
	for _, n := range []string{"n1", "n2", "n3"} {
		if n != l {
			others = append(others, n)
		}
	}
	w := func(key, val string) {
		ld, _ := c.LeaderByStatus()
		if ld == "" {
			return
		}
		op := &ClientOp{Client: 1, Kind: "put", Key: key, Value: val, Invoke: s.Steps(), Node: ld}
		obs.Ops = append(obs.Ops, op)
		if resp, err := c.Write(ld, put(key, val)); err == nil && resp.Puts[0].Status == proto.Status_OK {
			op.OK, op.Version, op.Status = true, resp.Puts[0].Version.VersionId, "OK"
		} else {
			op.Unknown = true
		}
		op.Return = s.Steps()
	}
	w("k0", "base")
	s.Sleep(200 * time.Millisecond)
	behind, holder := others[0], others[1]
	c.CutReplicationTo(behind)
	w("k1", "held-by-leader-and-one-follower")
	s.Sleep(200 * time.Millisecond)
	c.CoordCut[l] = true
	_ = c.SC.SwapNode(c.Nodes[holder].Addr, c.Nodes["n4"].Addr)
	s.Sleep(3 * time.Second)
	delete(c.CoordCut, l)
	delete(c.ReplCutTo, behind)
	s.Sleep(3 * time.Second)
	dbg("swap-holder: leader was %s, behind %s, swapped %s; final leader %v", l, behind, holder, func() string { x, _ := c.LeaderByStatus(); return x }())
}

// failedBecomeLeader: a leader with an uncommitted tail is re-elected (it has the best log
// among the fenced nodes) but cannot reach a quorum, so BecomeLeader times out; another node
// then leads, overwrites that tail with an acknowledged write, and the first node comes back
// as a follower.
func failedBecomeLeader(c *Cluster, s *vsched.Sched, obs *Obs) {
	l, _ := c.LeaderByStatus()
	if l == "" || c.SC == nil {
		return
	}
	var others []string
	for _, n := range []string{"n1", "n2", "n3"} {
		if n != l {
			others = append(others, n)
		}
	}
	// a committed entry first: a leader elected on an empty log refuses every follower
	// that has an entry ("follower term > election head term"), which is an availability
	// corner outside the properties
	op0 := &ClientOp{Client: 1, Kind: "put", Key: "k0", Value: "base", Invoke: s.Steps(), Node: l}
	obs.Ops = append(obs.Ops, op0)
	if resp, err := c.Write(l, put(op0.Key, op0.Value)); err == nil && resp.Puts[0].Status == proto.Status_OK {
		op0.OK, op0.Version, op0.Status = true, resp.Puts[0].Version.VersionId, "OK"
	} else {
		op0.Unknown = true
	}
	op0.Return = s.Steps()
	s.Sleep(200 * time.Millisecond)
	c.CutReplicationFrom(l)
	vsched.Go(func() {
		op := &ClientOp{Client: 100, Kind: "put", Key: "kk", Value: "never-committed", Invoke: s.Steps(), Node: l, Unknown: true}
		obs.Ops = append(obs.Ops, op)
		resp, err := c.Write(l, put(op.Key, op.Value))
		op.Return = s.Steps()
		if err == nil && resp.Puts[0].Status == proto.Status_OK {
			op.Unknown, op.OK, op.Version = false, true, resp.Puts[0].Version.VersionId
		}
	})
	s.Sleep(200 * time.Millisecond)
	// the coordinator is told the leader failed, but can only reach the old leader and one follower
	c.CoordCut[others[0]] = true
	c.SC.NodeBecameUnavailable(c.Nodes[l].Addr)
	failed := false
	for i := 0; i < 100 && !failed; i++ {
		s.Sleep(time.Second)
		for _, e := range c.Events {
			if e.Kind == "resp:BecomeLeader" && e.Node == l && e.Err != "" {
				failed = true
			}
		}
	}
	dbg("failed-become-leader: leader=%s failed=%v", l, failed)
	if !failed {
		return
	}
	// now the old leader is out of reach and the other follower is back
	c.CoordCut[l] = true
	delete(c.CoordCut, others[0])
	nl := ""
	for i := 0; i < 60 && nl == ""; i++ {
		s.Sleep(time.Second)
		md, ok := c.StoredMetadata()
		if ok && md.Leader != nil && md.Leader.Internal != l && md.Status == model.ShardStatusSteadyState {
			if x, _ := c.LeaderByStatusExcept(l); x == md.Leader.Internal {
				nl = x
			}
		}
	}
	dbg("failed-become-leader: new leader=%q", nl)
	if nl == "" {
		return
	}
	op := &ClientOp{Client: 1, Kind: "put", Key: "kk", Value: "acked", Invoke: s.Steps(), Node: nl}
	obs.Ops = append(obs.Ops, op)
	resp, err := c.Write(nl, put(op.Key, op.Value))
	op.Return = s.Steps()
	if err != nil {
		op.Unknown, op.Err = true, err.Error()
	} else if resp.Puts[0].Status == proto.Status_OK {
		op.OK, op.Version, op.Status = true, resp.Puts[0].Version.VersionId, "OK"
	}
	dbg("failed-become-leader: acked write: %+v err=%v", op, err)
	c.Heal(l)
	s.Sleep(5 * time.Second)
	// one more acknowledged write so that the followers learn the commit offset
	op2 := &ClientOp{Client: 1, Kind: "put", Key: "k2", Value: "acked2", Invoke: s.Steps(), Node: nl}
	obs.Ops = append(obs.Ops, op2)
	if resp, err := c.Write(nl, put(op2.Key, op2.Value)); err == nil && resp.Puts[0].Status == proto.Status_OK {
		op2.OK, op2.Version, op2.Status = true, resp.Puts[0].Version.VersionId, "OK"
	} else {
		op2.Unknown = true
	}
	op2.Return = s.Steps()
	s.Sleep(2 * time.Second)
	// finally the node whose election failed gets a chance to lead, and serves reads
	for round := 0; round < 2; round++ {
		cur, _ := c.LeaderByStatus()
		if cur == "" || cur == l {
			break
		}
		c.Isolate(cur)
		c.SC.NodeBecameUnavailable(c.Nodes[cur].Addr)
		for i := 0; i < 60; i++ {
			s.Sleep(time.Second)
			if x, _ := c.LeaderByStatusExcept(cur); x != "" {
				break
			}
		}
		c.Heal(cur)
		s.Sleep(5 * time.Second)
	}
	dbg("failed-become-leader: final leader %v", func() string { x, _ := c.LeaderByStatus(); return x }())
	doRead(c, s, obs, 1, "kk")
	doRead(c, s, obs, 1, "k0")
	doRead(c, s, obs, 1, "k2")
}

// swapSnapshotLead: data is written, then a follower is swapped for an empty node (which the
// leader restores from a snapshot of its database and then feeds from the log), more data is
// written, and leadership is pushed around until the new node leads and serves reads.
func swapSnapshotLead(c *Cluster, s *vsched.Sched, obs *Obs) {
	if c.SC == nil {
		return
	}
	w := func(key, val string) {
		l, _ := c.LeaderByStatus()
		if l == "" {
			return
		}
		op := &ClientOp{Client: 1, Kind: "put", Key: key, Value: val, Invoke: s.Steps(), Node: l}
		obs.Ops = append(obs.Ops, op)
		if resp, err := c.Write(l, put(key, val)); err == nil && resp.Puts[0].Status == proto.Status_OK {
			op.OK, op.Version, op.Status = true, resp.Puts[0].Version.VersionId, "OK"
		} else {
			op.Unknown = true
		}
		op.Return = s.Steps()
	}
	w("k0", "before-swap-0")
	w("k1", "before-swap-1")
	md, _ := c.StoredMetadata()
	from := ""
	for _, e := range md.Ensemble {
		if md.Leader == nil || e.Internal != md.Leader.Internal {
			from = e.Internal
		}
	}
	if from == "" {
		return
	}
	_ = c.SC.SwapNode(c.Nodes[from].Addr, c.Nodes["n4"].Addr)
	s.Sleep(5 * time.Second)
	// the remaining old follower misses the next writes, so that the new node holds the best log
	// among the nodes the coordinator can fence once the leader is gone
	cur, _ := c.LeaderByStatus()
	other := ""
	for _, n := range []string{"n1", "n2", "n3"} {
		if n != cur && n != from {
			other = n
		}
	}
	if cur == "" || other == "" {
		return
	}
	c.Isolate(other)
	w("k1", "after-swap-1")
	w("k2", "after-swap-2")
	c.Heal(other)
	c.Isolate(cur)
	c.SC.NodeBecameUnavailable(c.Nodes[cur].Addr)
	for i := 0; i < 60; i++ {
		s.Sleep(time.Second)
		if x, _ := c.LeaderByStatusExcept(cur); x != "" {
			break
		}
	}
	c.Heal(cur)
	s.Sleep(5 * time.Second)
	dbg("swap-snapshot-lead: final leader %v", func() string { x, _ := c.LeaderByStatus(); return x }())
	doRead(c, s, obs, 1, "k0")
	doRead(c, s, obs, 1, "k1")
	doRead(c, s, obs, 1, "k2")
}

func dbg(f string, a ...any) {
	if debugEvents {
		fmt.Fprintf(os.Stderr, "DBG "+f+"\n", a...)
	}
}

func faultThread(c *Cluster, s *vsched.Sched, spec ScenarioSpec) {
	switch strings.TrimSuffix(strings.TrimSuffix(spec.Fault, "-lossy"), "-break") {
	case "leader-crash", "leader-crash-restart":
		l, _ := c.LeaderByStatus()
		if l == "" {
			return
		}
		c.CrashNode(l)
		if c.SC != nil {
			c.SC.NodeBecameUnavailable(c.Nodes[l].Addr)
		}
		if spec.Fault == "leader-crash-restart" {
			s.Sleep(1500 * time.Millisecond)
			c.StartNode(l)
		}
	case "follower-crash-restart":
		l, _ := c.LeaderByStatus()
		for _, n := range c.Order {
			if n != l && c.Nodes[n].Up && n != "n4" {
				c.CrashNode(n)
				s.Sleep(1500 * time.Millisecond)
				c.StartNode(n)
				break
			}
		}
	case "spurious-failover":
		l, _ := c.LeaderByStatus()
		if l != "" && c.SC != nil {
			c.SC.NodeBecameUnavailable(c.Nodes[l].Addr)
		}
	case "lost-newterm-response":
		// the leader (the node with the best log, holding whatever is in flight) fences itself but
		// its answer is lost: the election proceeds without it
		l, _ := c.LeaderByStatus()
		if l != "" && c.SC != nil {
			c.DropNewTermRespFrom = l
			c.SC.NodeBecameUnavailable(c.Nodes[l].Addr)
		}
	case "lost-become-leader-response":
		// the next BecomeLeader is executed by the node but the coordinator never sees the answer
		c.DropBecomeLeaderResp = 1
		l, _ := c.LeaderByStatus()
		if l != "" && c.SC != nil {
			c.SC.NodeBecameUnavailable(c.Nodes[l].Addr)
		}
	case "coord-crash-after-become-leader":
		// the coordinator dies after a node has become leader and before the outcome is stored
		c.DropBecomeLeaderResp = 1
		l, _ := c.LeaderByStatus()
		if l != "" && c.SC != nil {
			c.SC.NodeBecameUnavailable(c.Nodes[l].Addr)
		}
		for i := 0; i < 50; i++ {
			s.Sleep(100 * time.Millisecond)
			lost := false
			for _, e := range c.Events {
				if e.Kind == "lost:BecomeLeader" {
					lost = true
				}
			}
			if lost {
				break
			}
		}
		c.CrashCoordinator()
		s.Sleep(500 * time.Millisecond)
		c.StartCoordinator([]string{"n1", "n2", "n3"})
	case "coord-crash":
		// provoke an election and kill the coordinator while it runs
		l, _ := c.LeaderByStatus()
		if l != "" && c.SC != nil {
			c.SC.NodeBecameUnavailable(c.Nodes[l].Addr)
		}
		s.Yield()
		c.CrashCoordinator()
		s.Sleep(500 * time.Millisecond)
		c.StartCoordinator([]string{"n1", "n2", "n3"})
	case "swap":
		if c.SC != nil {
			md, _ := c.StoredMetadata()
			from := ""
			for _, e := range md.Ensemble {
				if md.Leader == nil || e.Internal != md.Leader.Internal {
					from = e.Internal
				}
			}
			_ = c.SC.SwapNode(c.Nodes[from].Addr, c.Nodes["n4"].Addr)
		}
	case "swap-snapshot-restart":
		// data first, then a follower is swapped for an empty node that must be restored from a
		// snapshot (the transfer may break: Breaks); the new node is then restarted
		w := func(key, val string) {
			if l, _ := c.LeaderByStatus(); l != "" {
				op := &ClientOp{Client: 1, Kind: "put", Key: key, Value: val, Invoke: s.Steps(), Node: l}
				specObs.Ops = append(specObs.Ops, op)
				if resp, err := c.Write(l, put(key, val)); err == nil && resp.Puts[0].Status == proto.Status_OK {
					op.OK, op.Version, op.Status = true, resp.Puts[0].Version.VersionId, "OK"
				} else {
					op.Unknown = true
				}
				op.Return = s.Steps()
			}
		}
		w("k0", "before-swap")
		if c.SC != nil {
			md, _ := c.StoredMetadata()
			from := ""
			for _, e := range md.Ensemble {
				if md.Leader == nil || e.Internal != md.Leader.Internal {
					from = e.Internal
				}
			}
			_ = c.SC.SwapNode(c.Nodes[from].Addr, c.Nodes["n4"].Addr)
		}
		s.Sleep(3 * time.Second)
		c.CrashNode("n4")
		s.Sleep(500 * time.Millisecond)
		c.StartNode("n4")
		s.Sleep(3 * time.Second)
		w("k1", "after-restart")
	case "swap-snapshot-lead":
		swapSnapshotLead(c, s, specObs)
	case "failed-become-leader":
		failedBecomeLeader(c, s, specObs)
	case "swap-holder":
		swapHolder(c, s, specObs)
	case "client-cancel":
		// client 0 gives up on its first write at some point
		cancelFn()
	case "swap-unreachable":
		// the coordinator cannot reach two members of the ensemble while it swaps the third
		if c.SC != nil {
			md, _ := c.StoredMetadata()
			from := ""
			for _, e := range md.Ensemble {
				if md.Leader == nil || e.Internal != md.Leader.Internal {
					from = e.Internal
				}
			}
			for _, e := range md.Ensemble {
				if e.Internal != from {
					c.CoordCut[e.Internal] = true
				}
			}
			_ = c.SC.SwapNode(c.Nodes[from].Addr, c.Nodes["n4"].Addr)
			for _, e := range md.Ensemble {
				delete(c.CoordCut, e.Internal)
			}
		}
	case "rolling-isolation":
		rollingIsolation(c, s, specObs, 3)
	case "leader-swap":
		if c.SC != nil {
			md, _ := c.StoredMetadata()
			if md.Leader != nil {
				_ = c.SC.SwapNode(*md.Leader, c.Nodes["n4"].Addr)
			}
		}
	}
}

// ---- helpers for oracles ---------------------------------------------------------

// NodeDB returns the DB currently open on a node (leader or follower controller).
func NodeLog(c *Cluster, name string) *ShadowWal {
	n := c.Nodes[name]
	if n == nil || n.Walf == nil {
		return nil
	}
	return n.Walf.Current()
}

func PeekNode(n *Node) (term int64, status proto.ServingStatus, ok bool) {
	if n.Srv == nil || !n.Up {
		return 0, 0, false
	}
	lc, fc := server.VerifControllers(n.Srv, Shard)
	if lc != nil {
		t, st := server.VerifPeekLeader(lc)
		return t, proto.ServingStatus(st), true
	}
	if fc != nil {
		t, st, _ := server.VerifPeekFollower(fc)
		return t, proto.ServingStatus(st), true
	}
	return 0, 0, false
}
