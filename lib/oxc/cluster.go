package oxc

import (
	"context"
	"fmt"
	"io"
	"os"
	"path/filepath"
	"sync"
	"time"

	"github.com/cockroachdb/pebble/vfs"
	"github.com/emirpasic/gods/v2/sets/linkedhashset"
	"google.golang.org/grpc/codes"
	"google.golang.org/grpc/health/grpc_health_v1"
	"google.golang.org/grpc/status"

	"github.com/oxia-db/oxia/coordinator/controllers"
	"github.com/oxia-db/oxia/coordinator/metadata"
	"github.com/oxia-db/oxia/coordinator/model"
	"github.com/oxia-db/oxia/coordinator/resources"
	"github.com/oxia-db/oxia/proto"
	"github.com/oxia-db/oxia/server"
	"github.com/oxia-db/oxia/server/kv"
	"github.com/oxia-db/oxia/server/wal"
	"github.com/oxia-db/oxia/zzverif/vsched"
	"github.com/oxia-db/oxia/zzverif/vtime"
)

// ---- per-node persistent Pebble filesystems -----------------------------------------

var (
	fsMu  sync.Mutex
	fsReg = map[string]*vfs.MemFS{}
)

func init() {
	kv.VerifFSHook = func(dataDir string, inMemory bool, def vfs.FS) vfs.FS {
		fsMu.Lock()
		defer fsMu.Unlock()
		if fs, ok := fsReg[dataDir]; ok {
			return fs
		}
		return def
	}
}

func registerFS(dir string) *vfs.MemFS {
	fs := vfs.NewStrictMem()
	// the database directory and its ancestors exist durably (their creation is not part
	// of the crash model: only what the engine itself writes is)
	full := filepath.Join(dir, NS, fmt.Sprintf("shard-%d", Shard))
	_ = fs.MkdirAll(full, 0o755)
	for p := full; p != "/" && p != "."; p = filepath.Dir(p) {
		if d, err := fs.OpenDir(p); err == nil {
			_ = d.Sync()
			_ = d.Close()
		}
	}
	if d, err := fs.OpenDir("/"); err == nil {
		_ = d.Sync()
		_ = d.Close()
	}
	fsMu.Lock()
	fsReg[dir] = fs
	fsMu.Unlock()
	return fs
}

func unregisterFS(dir string) {
	fsMu.Lock()
	delete(fsReg, dir)
	fsMu.Unlock()
}

// ---- cluster ---------------------------------------------------------------------

const (
	NS    = "ns"
	Shard = int64(0)
)

type Node struct {
	Name    string
	Addr    model.Server
	Srv     *server.Server
	Up      bool
	Group   int
	Inc     int // incarnation
	crashed chan struct{}
	dbDir   string
	walDir  string
	fs      *vfs.MemFS
	kvf     *ObsFactory
	Walf    *ShadowFactory
	c       *Cluster
}

type Event struct {
	Step int
	Kind string // "send:NewTerm", "resp:NewTerm", "leader", ...
	Node string
	Term int64
	Head *proto.EntryId
	Err  string
	Info string
	// BecomeLeader only
	FollowerMap map[string]*proto.EntryId
	SentStep    int
}

type Cluster struct {
	S        *vsched.Sched
	Env      *Env
	Nodes    map[string]*Node
	Order    []string
	Repl     *Net
	Meta     metadata.Provider
	Status   resources.StatusResource
	Cfg      *FakeConfig
	SC       controllers.ShardController
	Events   []Event
	Elected  []Event
	nextGrp  int
	CoordGrp int
	SyncData bool
	SegSize  int32
	// Hooks
	OnRPC func(e Event)
	// Isolated nodes are cut off from the coordinator and from their peers (clients still
	// reach them); CoordCut nodes are only unreachable for the coordinator.
	Isolated map[string]bool
	CoordCut map[string]bool
	// ReplCutFrom: the node cannot reach its peers for replication (as a leader), while
	// the coordinator and the clients still reach it.
	ReplCutFrom map[string]bool
	// ReplCutTo: no leader reaches that node for replication (a follower that falls behind), while the
	// coordinator still reaches it.
	ReplCutTo map[string]bool
	// DropBecomeLeaderResp: that many BecomeLeader calls are executed by the node but their
	// response is lost on the way back (the coordinator sees an error)
	DropBecomeLeaderResp int
	// DropNewTermRespFrom: the next NewTerm answer of that node is lost on the way back
	DropNewTermRespFrom string
	// LossBudget: how many successfully executed coordinator RPCs may lose their answer; which
	// ones is a choice the explorer enumerates (each loss costs one deviation)
	LossBudget int
	// RealDisk: see RealDiskNext
	RealDisk bool
}

// CutReplicationFrom severs the outgoing replication of a node.
func (c *Cluster) CutReplicationFrom(name string) {
	c.ReplCutFrom[name] = true
	n := c.Nodes[name]
	for _, st := range c.Repl.Streams {
		if st.ownerGrp == n.Group {
			st.Break()
		}
	}
}

// CutReplicationTo severs the replication towards a node.
func (c *Cluster) CutReplicationTo(name string) {
	c.ReplCutTo[name] = true
	for _, st := range c.Repl.Streams {
		if st.follower == name {
			st.Break()
		}
	}
}

// Isolate partitions a node away from the coordinator and the other nodes.
func (c *Cluster) Isolate(name string) {
	c.Isolated[name] = true
	c.Repl.Down[name] = true
	n := c.Nodes[name]
	for _, st := range c.Repl.Streams {
		if st.follower == name || st.ownerGrp == n.Group {
			st.Break()
		}
	}
}

// Heal reconnects a node.
func (c *Cluster) Heal(name string) {
	delete(c.Isolated, name)
	delete(c.CoordCut, name)
	delete(c.ReplCutFrom, name)
	delete(c.ReplCutTo, name)
	if c.Nodes[name].Up {
		c.Repl.Down[name] = false
	}
}

// RealDiskNext makes the next cluster keep its databases in real directories (tmpfs) instead of
// the crash-simulating in-memory filesystem: the snapshot sender and loader of the repository
// read and write database files through the os package, so only on a real directory does a
// snapshot carry content. Crashes then keep everything that was written.
var RealDiskNext bool

func NewCluster(s *vsched.Sched, names []string, syncData bool) *Cluster {
	kv.VerifMemTableSize = 1 << 20
	kv.VerifNoAutoCompactions = RealDiskNext
	c := &Cluster{RealDisk: RealDiskNext, S: s, Env: NewEnv(s), Nodes: map[string]*Node{}, Repl: NewNet(), SyncData: syncData, SegSize: 64 * 1024, nextGrp: 10,
		Isolated: map[string]bool{}, CoordCut: map[string]bool{}, ReplCutFrom: map[string]bool{}, ReplCutTo: map[string]bool{}}
	c.Repl.Blocked = func(ownerGrp int, follower string) bool {
		if c.Isolated[follower] || c.ReplCutTo[follower] {
			return true
		}
		for name, n := range c.Nodes {
			if n.Group == ownerGrp && (c.Isolated[name] || c.ReplCutFrom[name]) {
				return true
			}
		}
		return false
	}
	c.Meta = metadata.NewMetadataProviderMemory()
	c.Status = resources.NewStatusResource(c.Meta)
	c.Cfg = &FakeConfig{servers: map[string]model.Server{}, ns: model.NamespaceConfig{Name: NS, InitialShardCount: 1, ReplicationFactor: 3}}
	for _, n := range names {
		c.AddNode(n)
	}
	s.OnEnd(func(vsched.Outcome) { c.postMortem() })
	return c
}

func (c *Cluster) AddNode(name string) *Node {
	n := &Node{Name: name, Addr: model.Server{Public: name, Internal: name}, c: c}
	n.dbDir = filepath.Join(c.Env.Dir, name, "db")
	n.walDir = filepath.Join(c.Env.Dir, name)
	if !c.RealDisk {
		n.fs = registerFS(n.dbDir)
	}
	c.Nodes[name] = n
	c.Order = append(c.Order, name)
	c.Cfg.servers[name] = n.Addr
	c.Repl.Peers[name] = nodeEndpoint{n}
	c.StartNode(name)
	return n
}

// StartNode boots (or re-boots) the server process of a node on its current disks.
func (c *Cluster) StartNode(name string) {
	n := c.Nodes[name]
	c.nextGrp++
	n.Group = c.nextGrp
	n.Inc++
	n.crashed = make(chan struct{})
	prev := c.S.Cur().Group
	c.S.SetGroup(n.Group)
	pf, err := kv.NewPebbleKVFactory(&kv.FactoryOptions{DataDir: n.dbDir, CacheSizeMB: 1})
	if err != nil {
		panic(err)
	}
	n.kvf = &ObsFactory{Factory: pf}
	if n.Walf == nil {
		n.Walf = &ShadowFactory{}
	}
	n.Walf.Factory = wal.NewWalFactory(&wal.FactoryOptions{BaseWalDir: filepath.Join(n.walDir, "wal"), Retention: time.Hour, SegmentSize: c.SegSize, SyncData: c.SyncData})
	srv, err := server.VerifNewServer(server.Config{NotificationsRetentionTime: time.Hour}, n.Walf, n.kvf, c.Repl)
	if err != nil {
		panic(err)
	}
	n.Srv = srv
	n.Up = true
	c.Repl.Down[name] = false
	c.S.SetGroup(prev)
}

// CrashNode kills the node's process. Pebble keeps exactly what it had synced; the WAL
// keeps everything that was appended (page cache survives a process crash).
func (c *Cluster) CrashNode(name string) {
	n := c.Nodes[name]
	if !n.Up {
		return
	}
	n.Up = false
	c.Repl.Down[name] = true
	c.S.KillGroup(n.Group)
	vsched.Close(n.crashed)
	for _, st := range c.Repl.Streams {
		if st.follower == name || st.ownerGrp == n.Group {
			st.Break()
		}
	}
	if n.fs != nil {
		n.fs.SetIgnoreSyncs(true)
	}
	for _, k := range n.kvf.KVs {
		func() {
			// databases the node had already closed itself panic on a second Close
			defer func() { _ = recover() }()
			_ = kv.VerifPebble(k.KV).Close()
		}()
	}
	n.kvf.closed = true
	if n.fs != nil {
		n.fs.ResetToSyncedState()
		n.fs.SetIgnoreSyncs(false)
	}
}

func (c *Cluster) postMortem() {
	for _, n := range c.Nodes {
		if n.kvf != nil && !n.kvf.closed {
			for _, k := range n.kvf.KVs {
				func() {
					defer func() { _ = recover() }()
					_ = kv.VerifPebble(k.KV).Close()
				}()
			}
		}
		unregisterFS(n.dbDir)
		if n.Walf != nil {
			for _, w := range n.Walf.Wals {
				wal.VerifForceClose(w.Wal)
			}
		}
	}
}

var debugEvents = os.Getenv("VERIF_EVENTS") != ""

func (c *Cluster) log(e Event) {
	e.Step = c.S.Steps()
	c.Events = append(c.Events, e)
	if debugEvents {
		fmt.Fprintf(os.Stderr, "EV %+v\n", e)
	}
	if c.OnRPC != nil {
		c.OnRPC(e)
	}
}

// call runs a unary RPC handler on the callee as a thread of the callee's process.
func call[T any](c *Cluster, ctx context.Context, node string, name string, f func(n *Node) (T, error)) (T, error) {
	var zero T
	n := c.Nodes[node]
	if n == nil || !n.Up {
		return zero, ErrUnavailable
	}
	type res struct {
		v   T
		err error
	}
	ch := make(chan res, 1)
	t := c.S.Go("rpc:"+name+"@"+node, func() {
		v, err := f(n)
		vsched.Send(ch)(res{v, err})
	})
	t.Group = n.Group
	r := vsched.Select(false, vsched.RecvCase(ch), vsched.RecvCase(n.crashed), vsched.RecvCase(ctx.Done()))
	switch r.I {
	case 0:
		x := r.Val.(res)
		return x.v, x.err
	case 1:
		return zero, ErrUnavailable
	default:
		return zero, status.Error(codes.Canceled, "context canceled")
	}
}

// ---- coordinator-side rpc.Provider --------------------------------------------------

type CoordRpc struct{ c *Cluster }

func (c *Cluster) Rpc() *CoordRpc { return &CoordRpc{c} }

func errStr(err error) string {
	if err == nil {
		return ""
	}
	return err.Error()
}

// lose decides, as an explorable environment choice, whether the answer of an RPC that the node
// has executed successfully is lost on its way back (LossBudget answers per execution at most).
func (r *CoordRpc) lose(kind, node string, term int64) bool {
	if r.c.LossBudget <= 0 {
		return false
	}
	if r.c.S.Choose(2, false) == 0 {
		return false
	}
	r.c.LossBudget--
	r.c.log(Event{Kind: "lost:" + kind, Node: node, Term: term})
	return true
}

func (r *CoordRpc) cut(node string) bool {
	if r.c.Isolated[node] || r.c.CoordCut[node] {
		r.c.S.Step(0) // the failure takes a scheduling step, like a refused connection
		return true
	}
	return false
}

func (r *CoordRpc) NewTerm(ctx context.Context, node model.Server, req *proto.NewTermRequest) (*proto.NewTermResponse, error) {
	if r.cut(node.Internal) {
		return nil, ErrUnavailable
	}
	r.c.log(Event{Kind: "send:NewTerm", Node: node.Internal, Term: req.Term})
	resp, err := call(r.c, ctx, node.Internal, "NewTerm", func(n *Node) (*proto.NewTermResponse, error) {
		return n.Srv.NewTerm(context.Background(), req.CloneVT())
	})
	if err == nil && r.lose("NewTerm", node.Internal, req.Term) {
		return nil, ErrUnavailable
	}
	if err == nil && r.c.DropNewTermRespFrom == node.Internal {
		// the node has fenced itself, the coordinator never learns it
		r.c.DropNewTermRespFrom = ""
		r.c.log(Event{Kind: "lost:NewTerm", Node: node.Internal, Term: req.Term})
		return nil, ErrUnavailable
	}
	e := Event{Kind: "resp:NewTerm", Node: node.Internal, Term: req.Term, Err: errStr(err)}
	if resp != nil {
		e.Head = resp.HeadEntryId
	}
	r.c.log(e)
	return resp, err
}

func (r *CoordRpc) BecomeLeader(ctx context.Context, node model.Server, req *proto.BecomeLeaderRequest) (*proto.BecomeLeaderResponse, error) {
	if r.cut(node.Internal) {
		return nil, ErrUnavailable
	}
	sent := r.c.S.Steps()
	r.c.log(Event{Kind: "send:BecomeLeader", Node: node.Internal, Term: req.Term, Info: fmt.Sprint(req.FollowerMaps), FollowerMap: req.FollowerMaps})
	// the coordinator's RPCs carry a 30 s deadline (coordinator/rpc: rpcTimeout); on virtual time
	rctx, cancel := context.WithCancel(ctx)
	defer cancel()
	t := vtime.AfterFunc(30*time.Second, cancel)
	defer t.Stop()
	resp, err := call(r.c, rctx, node.Internal, "BecomeLeader", func(n *Node) (*proto.BecomeLeaderResponse, error) {
		return n.Srv.BecomeLeader(rctx, req.CloneVT())
	})
	if err == nil && r.lose("BecomeLeader", node.Internal, req.Term) {
		return nil, ErrUnavailable
	}
	if err == nil && r.c.DropBecomeLeaderResp > 0 {
		r.c.DropBecomeLeaderResp--
		r.c.log(Event{Kind: "lost:BecomeLeader", Node: node.Internal, Term: req.Term, SentStep: sent})
		return nil, ErrUnavailable
	}
	e := Event{Kind: "resp:BecomeLeader", Node: node.Internal, Term: req.Term, Err: errStr(err), SentStep: sent}
	r.c.log(e)
	if err == nil {
		r.c.Elected = append(r.c.Elected, e)
	}
	return resp, err
}

func (r *CoordRpc) AddFollower(ctx context.Context, node model.Server, req *proto.AddFollowerRequest) (*proto.AddFollowerResponse, error) {
	if r.cut(node.Internal) {
		return nil, ErrUnavailable
	}
	r.c.log(Event{Kind: "send:AddFollower", Node: node.Internal, Term: req.Term, Info: req.FollowerName, Head: req.FollowerHeadEntryId})
	resp, err := call(r.c, ctx, node.Internal, "AddFollower", func(n *Node) (*proto.AddFollowerResponse, error) {
		return n.Srv.AddFollower(context.Background(), req.CloneVT())
	})
	if err == nil && r.lose("AddFollower", node.Internal, req.Term) {
		return nil, ErrUnavailable
	}
	r.c.log(Event{Kind: "resp:AddFollower", Node: node.Internal, Term: req.Term, Err: errStr(err)})
	return resp, err
}

func (r *CoordRpc) GetStatus(ctx context.Context, node model.Server, req *proto.GetStatusRequest) (*proto.GetStatusResponse, error) {
	if r.cut(node.Internal) {
		return nil, ErrUnavailable
	}
	return call(r.c, ctx, node.Internal, "GetStatus", func(n *Node) (*proto.GetStatusResponse, error) {
		return n.Srv.GetStatus(context.Background(), req.CloneVT())
	})
}

func (r *CoordRpc) DeleteShard(ctx context.Context, node model.Server, req *proto.DeleteShardRequest) (*proto.DeleteShardResponse, error) {
	if r.cut(node.Internal) {
		return nil, ErrUnavailable
	}
	r.c.log(Event{Kind: "send:DeleteShard", Node: node.Internal, Term: req.Term})
	return call(r.c, ctx, node.Internal, "DeleteShard", func(n *Node) (*proto.DeleteShardResponse, error) {
		return n.Srv.DeleteShard(context.Background(), req.CloneVT())
	})
}

func (r *CoordRpc) PushShardAssignments(ctx context.Context, node model.Server) (proto.OxiaCoordination_PushShardAssignmentsClient, error) {
	return nil, ErrUnavailable
}

func (r *CoordRpc) GetHealthClient(node model.Server) (grpc_health_v1.HealthClient, io.Closer, error) {
	return nil, nil, ErrUnavailable
}

func (r *CoordRpc) ClearPooledConnections(node model.Server) {}

// ---- replication endpoint of a node ----------------------------------------------

type nodeEndpoint struct{ n *Node }

func (e nodeEndpoint) Replicate(stream proto.OxiaLogReplication_ReplicateServer) error {
	return e.n.Srv.Replicate(stream)
}

func (e nodeEndpoint) SendSnapshot(stream proto.OxiaLogReplication_SendSnapshotServer) error {
	return e.n.Srv.SendSnapshot(stream)
}

func (e nodeEndpoint) Truncate(req *proto.TruncateRequest) (*proto.TruncateResponse, error) {
	return e.n.Srv.Truncate(context.Background(), req)
}

func (e nodeEndpoint) group() int { return e.n.Group }

// ---- fake cluster config resource ----------------------------------------------------

type FakeConfig struct {
	servers map[string]model.Server
	ns      model.NamespaceConfig
}

func (f *FakeConfig) Close() error { return nil }
func (f *FakeConfig) Load() *model.ClusterConfig {
	cc := &model.ClusterConfig{Namespaces: []model.NamespaceConfig{f.ns}}
	for _, s := range f.servers {
		cc.Servers = append(cc.Servers, s)
	}
	return cc
}
func (f *FakeConfig) Nodes() *linkedhashset.Set[string] {
	s := linkedhashset.New[string]()
	for k := range f.servers {
		s.Add(k)
	}
	return s
}
func (f *FakeConfig) NodesWithMetadata() (*linkedhashset.Set[string], map[string]model.ServerMetadata) {
	return f.Nodes(), map[string]model.ServerMetadata{}
}
func (f *FakeConfig) NamespaceConfig(namespace string) (*model.NamespaceConfig, bool) {
	return &f.ns, true
}
func (f *FakeConfig) Node(id string) (*model.Server, bool) {
	s, ok := f.servers[id]
	if !ok {
		return nil, false
	}
	return &s, true
}

// ---- coordinator ---------------------------------------------------------------------

type listener struct{ c *Cluster }

func (l listener) LeaderElected(shard int64, leader model.Server, followers []model.Server) {
	l.c.log(Event{Kind: "elected", Node: leader.Internal})
}
func (l listener) ShardDeleted(int64) {}

// StartCoordinator creates the shard controller from whatever the metadata store holds
// (initialising it for `ensemble` when empty), like coordinator.NewCoordinator does.
func (c *Cluster) StartCoordinator(ensemble []string) {
	c.nextGrp++
	c.CoordGrp = c.nextGrp
	prev := c.S.Cur().Group
	c.S.SetGroup(c.CoordGrp)
	c.Status = resources.NewStatusResource(c.Meta)
	cs := c.Status.Load()
	var md model.ShardMetadata
	if nsst, ok := cs.Namespaces[NS]; ok {
		md = nsst.Shards[Shard]
	} else {
		md = model.ShardMetadata{Status: model.ShardStatusUnknown, Term: -1, Int32HashRange: model.Int32HashRange{Min: 0, Max: 0xffffffff}}
		for _, n := range ensemble {
			md.Ensemble = append(md.Ensemble, c.Nodes[n].Addr)
		}
		ncs := &model.ClusterStatus{Namespaces: map[string]model.NamespaceStatus{NS: {ReplicationFactor: uint32(len(ensemble)),
			Shards: map[int64]model.ShardMetadata{Shard: md}}}, ShardIdGenerator: 1}
		c.Status.Update(ncs)
	}
	c.SC = controllers.NewShardController(NS, Shard, &c.Cfg.ns, md, c.Cfg, c.Status, listener{c}, c.Rpc())
	c.S.SetGroup(prev)
}

// CrashCoordinator kills the coordinator process; durable state is the metadata store.
func (c *Cluster) CrashCoordinator() {
	c.S.KillGroup(c.CoordGrp)
	c.SC = nil
}

// StoredMetadata reads the shard metadata that is durable in the metadata store.
func (c *Cluster) StoredMetadata() (model.ShardMetadata, bool) {
	cs, _, err := c.Meta.Get()
	if err != nil || cs == nil {
		return model.ShardMetadata{}, false
	}
	ns, ok := cs.Namespaces[NS]
	if !ok {
		return model.ShardMetadata{}, false
	}
	md, ok := ns.Shards[Shard]
	return md, ok
}

// ---- client ------------------------------------------------------------------------

// Write sends a write to the given node through its public RPC surface.
func (c *Cluster) Write(node string, req *proto.WriteRequest) (*proto.WriteResponse, error) {
	return c.WriteCtx(context.Background(), node, req)
}

// WriteCtx is Write with the caller's context (a client that gives up / disconnects).
func (c *Cluster) WriteCtx(ctx context.Context, node string, req *proto.WriteRequest) (*proto.WriteResponse, error) {
	return call(c, ctx, node, "Write", func(n *Node) (*proto.WriteResponse, error) {
		return n.Srv.Write(ctx, req)
	})
}

// Get reads one key from the given node through the leader controller.
func (c *Cluster) Get(node string, key string) (*proto.GetResponse, error) {
	return call(c, context.Background(), node, "Read", func(n *Node) (*proto.GetResponse, error) {
		lc, err := server.VerifDirector(n.Srv).GetLeader(Shard)
		if err != nil {
			return nil, err
		}
		ch := make(chan getRes, 1)
		lc.Read(context.Background(), &proto.ReadRequest{Shard: i64p(Shard), Gets: []*proto.GetRequest{{Key: key, IncludeValue: true}}},
			&readCb{ch: ch})
		r := vsched.Recv(ch)
		return r.g, r.err
	})
}

type getRes struct {
	g   *proto.GetResponse
	err error
}

type readCb struct {
	ch chan getRes
	g  *proto.GetResponse
}

func (r *readCb) OnNext(g *proto.GetResponse) error { r.g = g; return nil }
func (r *readCb) OnComplete(err error)              { vsched.Send(r.ch)(getRes{r.g, err}) }

func i64p(v int64) *int64 { return &v }

// LeaderByStatus returns the node that currently reports LEADER with the highest term.
func (c *Cluster) LeaderByStatus() (string, int64) { return c.LeaderByStatusExcept("") }

func (c *Cluster) LeaderByStatusExcept(except string) (string, int64) {
	best, bt := "", int64(-1)
	for _, name := range c.Order {
		n := c.Nodes[name]
		if !n.Up || name == except {
			continue
		}
		lc, _ := server.VerifControllers(n.Srv, Shard)
		if lc == nil {
			continue
		}
		t, st := server.VerifPeekLeader(lc)
		if proto.ServingStatus(st) == proto.ServingStatus_LEADER && t > bt {
			best, bt = name, t
		}
	}
	return best, bt
}
