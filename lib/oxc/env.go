package oxc

import (
	"fmt"
	"io"
	"os"
	"path/filepath"
	"strconv"
	"sync/atomic"
	"time"

	"github.com/oxia-db/oxia/server/kv"
	"github.com/oxia-db/oxia/server/wal"
	"github.com/oxia-db/oxia/zzverif/vsched"
)

var scratchRoot string
var execCtr atomic.Int64

// ScratchRoot returns a per-process scratch directory on tmpfs.
func ScratchRoot() string {
	if scratchRoot == "" {
		base := os.Getenv("VERIF_SCRATCH")
		if base == "" {
			base = "/dev/shm"
		}
		d, err := os.MkdirTemp(base, "x-")
		if err != nil {
			panic(err)
		}
		scratchRoot = d
	}
	return scratchRoot
}

// Env is the storage of one execution. Create it inside the harness body.
type Env struct {
	Dir string
}

func NewEnv(s *vsched.Sched) *Env {
	d := filepath.Join(ScratchRoot(), "e"+strconv.FormatInt(execCtr.Add(1), 10))
	e := &Env{Dir: d}
	s.OnEnd(func(vsched.Outcome) { _ = os.RemoveAll(d) })
	return e
}

// WalFactory returns a WAL factory for one node.
func (e *Env) WalFactory(node string, segSize int32, syncData bool) wal.Factory {
	return wal.NewWalFactory(&wal.FactoryOptions{BaseWalDir: filepath.Join(e.Dir, node, "wal"), Retention: time.Hour,
		SegmentSize: segSize, SyncData: syncData})
}

// CommitObs records, per KV instance, the sequence of commit offsets written.
type CommitObs struct {
	Offsets []int64
}

// ObsFactory is an in-memory Pebble factory whose KVs report every committed batch that
// writes the `__oxia/commit-offset` key.
type ObsFactory struct {
	kv.Factory
	KVs    []*obsKV
	closed bool
	// Yield turns every engine call (reads, batch creation, commit) into a scheduling point
	Yield bool
}

func NewObsFactory(dir string) *ObsFactory {
	kv.VerifMemTableSize = 1 << 20
	f, err := kv.NewPebbleKVFactory(&kv.FactoryOptions{DataDir: dir, CacheSizeMB: 1, InMemory: true})
	if err != nil {
		panic(err)
	}
	return &ObsFactory{Factory: f}
}

type obsKV struct {
	kv.KV
	Obs CommitObs
	f   *ObsFactory
}

// yield makes a storage-engine call a scheduling point when the factory asks for it: code
// that only talks to the engine (trimmers, readers) has no other point at which another
// thread could run in between.
func (k *obsKV) yield() {
	if k.f != nil && k.f.Yield {
		if s := vsched.Active(); s != nil && !s.Dead() {
			s.Step(7)
		}
	}
}

func (k *obsKV) Get(key string, c kv.ComparisonType) (string, []byte, io.Closer, error) {
	k.yield()
	return k.KV.Get(key, c)
}

func (k *obsKV) RangeScan(lo, hi string) (kv.KeyValueIterator, error) {
	k.yield()
	return k.KV.RangeScan(lo, hi)
}

func (k *obsKV) KeyRangeScan(lo, hi string) (kv.KeyIterator, error) {
	k.yield()
	return k.KV.KeyRangeScan(lo, hi)
}

func (k *obsKV) KeyRangeScanReverse(lo, hi string) (kv.ReverseKeyIterator, error) {
	k.yield()
	return k.KV.KeyRangeScanReverse(lo, hi)
}

func (f *ObsFactory) NewKV(namespace string, shardId int64) (kv.KV, error) {
	k, err := f.Factory.NewKV(namespace, shardId)
	if err != nil {
		return nil, err
	}
	o := &obsKV{KV: k, f: f}
	f.KVs = append(f.KVs, o)
	return o, nil
}

func (f *ObsFactory) CommitSequences() [][]int64 {
	var out [][]int64
	for _, k := range f.KVs {
		out = append(out, k.Obs.Offsets)
	}
	return out
}

func (k *obsKV) NewWriteBatch() kv.WriteBatch {
	k.yield()
	return &obsBatch{WriteBatch: k.KV.NewWriteBatch(), kv: k, off: -2}
}

type obsBatch struct {
	kv.WriteBatch
	kv  *obsKV
	off int64
}

func (b *obsBatch) Put(key string, value []byte) error {
	if key == "__oxia/commit-offset" {
		// value is a serialized StorageEntry whose Value is the ASCII offset
		if v, ok := parseASCIIEntry(value); ok {
			b.off = v
		}
	}
	return b.WriteBatch.Put(key, value)
}

func (b *obsBatch) Commit() error {
	b.kv.yield()
	err := b.WriteBatch.Commit()
	if err == nil && b.off != -2 {
		b.kv.Obs.Offsets = append(b.kv.Obs.Offsets, b.off)
	}
	return err
}

// CheckSequential verifies that offs is exactly start+1, start+2, ...
func CheckSequential(offs []int64, start int64) string {
	for i, o := range offs {
		if o != start+1+int64(i) {
			return fmt.Sprintf("batch commit #%d wrote commit offset %d, expected %d (sequence %v)", i, o, start+1+int64(i), offs)
		}
	}
	return ""
}
