package oxc

import (
	"strconv"

	"github.com/oxia-db/oxia/proto"
	"github.com/oxia-db/oxia/server/kv"

	"verif/lib/oxh"
)

func parseASCIIEntry(value []byte) (int64, bool) {
	se := &proto.StorageEntry{}
	if err := se.UnmarshalVT(value); err != nil {
		return 0, false
	}
	v, err := strconv.ParseInt(string(se.Value), 10, 64)
	return v, err == nil
}

func oxhMemFactory() kv.Factory { return oxh.NewMemFactory() }

// dumpDB renders the log-derived content of a database (term records are not log-derived).
func dumpDB(d kv.DB) []string { return oxh.DumpDB(d, oxh.DumpOpts{SkipTerm: true}) }
