package oxc

import (
	"strconv"

	"github.com/oxia-db/oxia/proto"
)

func parseASCIIEntry(value []byte) (int64, bool) {
	se := &proto.StorageEntry{}
	if err := se.UnmarshalVT(value); err != nil {
		return 0, false
	}
	v, err := strconv.ParseInt(string(se.Value), 10, 64)
	return v, err == nil
}
