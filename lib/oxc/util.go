package oxc

import (
	"strconv"
	"time"

	time2 "github.com/oxia-db/oxia/common/time"
	"github.com/oxia-db/oxia/proto"
	"github.com/oxia-db/oxia/server"
	"github.com/oxia-db/oxia/server/kv"

	"verif/lib/oxh"
)

func parseASCIIEntry(value []byte) (int64, bool) {
	se := &proto.StorageEntry{}
	if err := se.UnmarshalVT(value); err != nil {
		return 0, false
	}
	v, err := strconv.ParseInt(string(se.Value), 10, 64)
	return v, err == nil
}

func oxhMemFactory() kv.Factory { return oxh.NewMemFactory() }

// dumpDB renders the log-derived content of a database (term records are not log-derived).
func dumpDB(d kv.DB) []string { return oxh.DumpDB(d, oxh.DumpOpts{SkipTerm: true}) }

// FoldDiffers applies entries 0..upTo (a contiguous log starting at offset 0) in order to a fresh
// database, the way every replica does, and compares the result with db. It returns "" when
// they are equal, otherwise a description.
func FoldDiffers(ns string, shard int64, db kv.DB, entries []*proto.LogEntry, upTo int64) string {
	mf := oxhMemFactory()
	defer mf.Close() // (a factory owns a block cache: thousands of executions per worker would pile them up)
	ref, err := kv.NewDB(ns, shard, mf, time.Hour, time2.SystemClock)
	if err != nil {
		return ""
	}
	defer ref.Close()
	for _, e := range entries {
		if e.Offset > upTo {
			break
		}
		lev := &proto.LogEntryValue{}
		if lev.UnmarshalVT(e.Value) != nil {
			return ""
		}
		for _, w := range lev.GetRequests().GetWrites() {
			if _, err := ref.ProcessWrite(w, e.Offset, e.Timestamp, server.WrapperUpdateOperationCallback); err != nil && !kv.IsInvalidRequestError(err) {
				return ""
			}
		}
	}
	want, got := dumpForCompare(ref), dumpForCompare(db)
	if want != got {
		return "have: " + got + "\n want: " + want
	}
	return ""
}
