// Package walh: the WAL's group-sync thread under the cooperative scheduler. What the WAL reports as
// synced (LastOffset, the completion of AppendAndSync / Sync) is what followers acknowledge and what leaders
// count towards the quorum, so it must never be ahead of what an msync has actually covered. A real WAL
// (SyncData on) with its real sync goroutine; the harness observes the start and the end of every Flush of
// the current segment: an msync guarantees the content at its *start*, entries appended while it runs are
// covered by the next one only. The flush itself is a scheduling point, so appends land inside it.
package walh

import (
	"context"
	"flag"
	"fmt"
	"os"
	"path/filepath"
	"time"

	time2 "github.com/oxia-db/oxia/common/time"
	"github.com/oxia-db/oxia/proto"
	"github.com/oxia-db/oxia/server/wal"
	"github.com/oxia-db/oxia/zzverif/vsched"

	"verif/lib/oxc"
	"verif/lib/oxh"
	"verif/lib/sched"
)

type noCommit struct{}

func (noCommit) CommitOffset() int64 { return -1 }

func entry(off int64) *proto.LogEntry {
	return &proto.LogEntry{Term: 1, Offset: off, Value: []byte(fmt.Sprintf("value-%d", off)), Timestamp: uint64(1000 + off)}
}

// body: `n` entries appended by one thread (the controller holds its own lock around appends, so they are
// ordered); viaSyncCall: AppendAsync + a separate Sync call per entry from a second thread (the follower's
// way), else AppendAndSync with a callback (the leader's way).
func body(n int, viaSyncCall bool) func(s *vsched.Sched) {
	return func(s *vsched.Sched) {
		s.Explore(false)
		env := oxc.NewEnv(s)
		w, err := wal.VerifNewWal("ns", 1, &wal.FactoryOptions{BaseWalDir: filepath.Join(env.Dir, "wal"), Retention: time.Hour,
			SegmentSize: 64 * 1024, SyncData: true}, noCommit{}, time2.SystemClock, time.Hour)
		if err != nil {
			s.Fail("harness-setup", err.Error())
			return
		}
		durable := int64(-1) // highest offset covered by a completed flush
		var starts []int64
		wal.VerifC10ObserveFlush(w, func() {
			_, appended, _ := wal.VerifPeekOffsets(w)
			starts = append(starts, appended)
			s.Step(9) // the msync is in progress: other threads run
		}, func() {
			if st := starts[len(starts)-1]; st > durable {
				durable = st
			}
		})
		check := func(where string) {
			if lo := w.LastOffset(); lo > durable {
				s.Fail("synced-offset-ahead-of-flush", fmt.Sprintf("%s: the WAL reports offset %d as synced, completed flushes cover offsets up to %d only (flushes started at appended offsets %v)", where, lo, durable, starts))
			}
		}
		s.Settle()
		s.Explore(true)
		acked := int64(-1)
		if viaSyncCall {
			appended := make(chan int64, n)
			vsched.Go(func() {
				for o := int64(0); o < int64(n); o++ {
					if err := w.AppendAsync(entry(o)); err != nil {
						s.Fail("append-failed", err.Error())
						return
					}
					vsched.Send(appended)(o)
				}
				vsched.Close(appended)
			})
			vsched.Go(func() {
				// the follower's sync routine: after Sync returns, everything up to LastOffset is acknowledged
				for {
					r := vsched.Select(false, vsched.RecvCase(appended))
					if !r.Ok {
						return
					}
					if err := w.Sync(context.Background()); err != nil {
						return
					}
					lo := w.LastOffset()
					if lo > durable {
						s.Fail("acknowledged-before-flush", fmt.Sprintf("Sync returned and LastOffset is %d: the follower acknowledges it; completed flushes cover offsets up to %d only", lo, durable))
					}
					if lo > acked {
						acked = lo
					}
				}
			})
		} else {
			vsched.Go(func() {
				for o := int64(0); o < int64(n); o++ {
					o := o
					w.AppendAndSync(entry(o), func(err error) {
						if err != nil {
							return
						}
						if o > durable {
							s.Fail("acknowledged-before-flush", fmt.Sprintf("the sync callback of offset %d ran (the leader counts its own copy as stored); completed flushes cover offsets up to %d only", o, durable))
						}
						if o > acked {
							acked = o
						}
					})
				}
			})
		}
		s.Settle()
		s.Explore(false)
		check("at quiescence")
		if !viaSyncCall && acked != int64(n-1) {
			s.Fail("sync-never-completed", fmt.Sprintf("%d entries appended with AppendAndSync, callbacks ran up to offset %d", n, acked))
		}
		s.Data = fmt.Sprintf("flushes=%v durable=%d synced=%d", starts, durable, w.LastOffset())
		_ = w.Close()
	}
}

func scenarios(tier string) []sched.Scenario {
	cfg := vsched.Config{MaxSteps: 20000}
	dev := 3
	if tier == "thorough" {
		dev = 4
	}
	return []sched.Scenario{
		{Name: "append-and-sync-x3", Cfg: cfg, MaxDev: dev, Body: body(3, false)},
		{Name: "append-async-x3-with-sync-calls", Cfg: cfg, MaxDev: dev, Body: body(3, true)},
	}
}

// Main runs the suite as a stage of `property`.
func Main(property string) int {
	replay := flag.String("replay", "", "replay file")
	flag.Parse()
	oxh.Quiet()
	su := sched.Suite{Property: property, Scenarios: scenarios, Stage2: os.Getenv("VERIF_STAGE2") != "",
		Budget: func(tier string) time.Duration {
			if tier == "thorough" {
				return 10 * time.Minute
			}
			return 40 * time.Second
		},
		Rule:   "every schedule with at most max_dev non-default scheduling choices of an appender thread (three entries), a thread calling Sync, and the WAL's own group-sync thread on a real WAL with SyncData on; the flush of the segment is a scheduling point; the offset reported as synced, and every completed sync, is compared with what completed flushes cover",
		Assume: []string{"sequentially consistent memory", "deviation-bounded schedules", "an msync makes durable exactly what the mapping held when it started"}}
	return sched.Main(su, *replay)
}
