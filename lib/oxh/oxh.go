// Package oxh holds helpers shared by the DB-level harnesses: in-memory factories that
// remember the KV they created, canonical dumps of a shard database, request builders.
package oxh

import (
	"fmt"
	"io"
	"log/slog"
	"sort"
	"strings"
	"sync"

	"github.com/oxia-db/oxia/common/metric"
	"github.com/oxia-db/oxia/proto"
	"github.com/oxia-db/oxia/server/kv"
)

// Quiet silences logging and replaces the OpenTelemetry meter by a no-op one: gauge callbacks
// registered with the real meter capture controllers and databases and would keep every
// explored execution alive for the life of the process.
func Quiet() {
	slog.SetDefault(slog.New(slog.NewTextHandler(io.Discard, nil)))
	metric.VerifUseNoopMeter()
}

// CapFactory wraps a kv.Factory and remembers every KV it created.
type CapFactory struct {
	kv.Factory
	mu  sync.Mutex
	KVs []kv.KV
}

func (f *CapFactory) NewKV(namespace string, shardId int64) (kv.KV, error) {
	k, err := f.Factory.NewKV(namespace, shardId)
	if err == nil {
		f.mu.Lock()
		f.KVs = append(f.KVs, k)
		f.mu.Unlock()
	}
	return k, err
}

func (f *CapFactory) Last() kv.KV {
	f.mu.Lock()
	defer f.mu.Unlock()
	return f.KVs[len(f.KVs)-1]
}

// NewMemFactory returns a Pebble factory on a private in-memory filesystem.
func NewMemFactory() *CapFactory {
	f, err := kv.NewPebbleKVFactory(&kv.FactoryOptions{DataDir: "/mem", CacheSizeMB: 1, InMemory: true})
	if err != nil {
		panic(err)
	}
	return &CapFactory{Factory: f}
}

// NewDirFactory returns a Pebble factory rooted at dir (real or hooked filesystem).
func NewDirFactory(dir string) *CapFactory {
	f, err := kv.NewPebbleKVFactory(&kv.FactoryOptions{DataDir: dir, CacheSizeMB: 1})
	if err != nil {
		panic(err)
	}
	return &CapFactory{Factory: f}
}

type DumpOpts struct {
	SkipTerm          bool // drop __oxia/term and __oxia/term-options (not log-derived)
	SkipNotifications bool
	UserOnly          bool // only keys outside __oxia/
}

func fmtOpt(p *int64) string {
	if p == nil {
		return "-"
	}
	return fmt.Sprint(*p)
}

func fmtStr(p *string) string {
	if p == nil {
		return "-"
	}
	return fmt.Sprintf("%q", *p)
}

func RenderStorageEntry(se *proto.StorageEntry) string {
	var idx []string
	for _, si := range se.SecondaryIndexes {
		idx = append(idx, si.IndexName+"="+si.SecondaryKey)
	}
	return fmt.Sprintf("val=%q ver=%d mod=%d cts=%d mts=%d sess=%s cid=%s pk=%s idx=%v", se.Value, se.VersionId,
		se.ModificationsCount, se.CreationTimestamp, se.ModificationTimestamp, fmtOpt(se.SessionId), fmtStr(se.ClientIdentity),
		fmtStr(se.PartitionKey), idx)
}

func RenderNotificationBatch(nb *proto.NotificationBatch) string {
	var ks []string
	for k := range nb.Notifications {
		ks = append(ks, k)
	}
	sort.Strings(ks)
	var b strings.Builder
	fmt.Fprintf(&b, "shard=%d off=%d ts=%d {", nb.Shard, nb.Offset, nb.Timestamp)
	for _, k := range ks {
		n := nb.Notifications[k]
		fmt.Fprintf(&b, "%q:%s/v=%s/last=%s ", k, n.Type, fmtOpt(n.VersionId), fmtStr(n.KeyRangeLast))
	}
	b.WriteString("}")
	return b.String()
}

// DumpKV renders every stored key in engine order with its decoded value.
func DumpKV(k kv.KV, o DumpOpts) []string {
	it, err := k.RangeScan("", "")
	if err != nil {
		panic(err)
	}
	defer it.Close()
	var out []string
	for ; it.Valid(); it.Next() {
		key := it.Key()
		internal := strings.HasPrefix(key, "__oxia/")
		if o.UserOnly && internal {
			continue
		}
		if o.SkipTerm && (key == "__oxia/term" || key == "__oxia/term-options") {
			continue
		}
		v, err := it.Value()
		if err != nil {
			panic(err)
		}
		if strings.HasPrefix(key, "__oxia/notifications/") {
			if o.SkipNotifications {
				continue
			}
			nb := &proto.NotificationBatch{}
			if err := nb.UnmarshalVT(v); err != nil {
				out = append(out, fmt.Sprintf("%q => UNDECODABLE-NOTIFICATION %x", key, v))
				continue
			}
			out = append(out, fmt.Sprintf("%q => %s", key, RenderNotificationBatch(nb)))
			continue
		}
		se := &proto.StorageEntry{}
		if err := se.UnmarshalVT(v); err != nil {
			out = append(out, fmt.Sprintf("%q => RAW %x", key, v))
			continue
		}
		out = append(out, fmt.Sprintf("%q => %s", key, RenderStorageEntry(se)))
	}
	return out
}

// DumpDB dumps the KV underneath a kv.DB.
func DumpDB(d kv.DB, o DumpOpts) []string { return DumpKV(kv.VerifKV(d), o) }

func I64(v int64) *int64   { return &v }
func Str(s string) *string { return &s }
func U32(v uint32) *uint32 { return &v }
