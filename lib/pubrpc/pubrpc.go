// Package pubrpc: the read path between a leader controller and a client. Read, List and RangeScan results
// leave the controller one element at a time and are cut into response messages by the public RPC server
// (count and byte limits per message). Whatever the sizes and the number of elements, the messages put
// together must be exactly what the controller produced: every record, in key order, each value with its own
// key and version, and a multi-get answered position by position. Data sets are chosen around the limits of
// the cutting: empty values, one value above the byte limit between small ones, more records than the count
// limit, an all-empty tail after a full message.
package pubrpc

import (
	"context"
	"flag"
	"fmt"
	"os"
	"sort"
	"strings"
	"time"

	"github.com/oxia-db/oxia/common/compare"
	"github.com/oxia-db/oxia/proto"
	"github.com/oxia-db/oxia/server"
	"github.com/oxia-db/oxia/server/kv"
	"github.com/oxia-db/oxia/server/wal"

	"verif/lib/ev"
	"verif/lib/oxh"
)

type rec struct {
	key string
	val []byte
}

type dataset struct {
	name string
	recs []rec
}

func big(n int, c byte) []byte { return []byte(strings.Repeat(string(c), n)) }

func datasets() []dataset {
	const mib = 1 << 20
	var ds []dataset
	// hierarchical keys, all values empty (marker / lock records)
	var empty []rec
	for _, k := range []string{"a", "b", "a/x", "a/y", "b/x", "a/x/1", "c", "0/z", "a/b/c"} {
		empty = append(empty, rec{k, nil})
	}
	ds = append(ds, dataset{"nine-keys-empty-values", empty})
	// one value above the byte limit of a message between small ones, in every position
	for pos := 0; pos < 3; pos++ {
		r := []rec{{"a", []byte("va")}, {"b", []byte("vb")}, {"c", []byte("vc")}}
		r[pos].val = big(2*mib+16, byte('A'+pos))
		ds = append(ds, dataset{fmt.Sprintf("large-value-at-%d", pos), r})
	}
	// values that add up to the byte limit
	ds = append(ds, dataset{"three-values-of-1MiB", []rec{{"a", big(mib, 'a')}, {"b", big(mib, 'b')}, {"c", big(mib, 'c')}, {"d", []byte("d")}}})
	// more records than the count limit of a message, then a tail of empty values
	var many []rec
	for i := 0; i < 1100; i++ {
		many = append(many, rec{fmt.Sprintf("k%04d", i), []byte("v")})
	}
	for i := 0; i < 5; i++ {
		many = append(many, rec{fmt.Sprintf("z%d", i), nil})
	}
	ds = append(ds, dataset{"1100-small-then-5-empty", many})
	var manyEmpty []rec
	for i := 0; i < 1003; i++ {
		manyEmpty = append(manyEmpty, rec{fmt.Sprintf("e%04d", i), nil})
	}
	ds = append(ds, dataset{"1003-empty-values", manyEmpty})
	ds = append(ds, dataset{"no-records", nil})
	return ds
}

// Main runs the check as a stage of `property`.
func Main(property string) int {
	flag.String("replay", "", "replay file (data sets are fixed: a replay is a re-run)")
	flag.Parse()
	oxh.Quiet()
	run := ev.NewRun(property, "exploration")
	run.MergeExisting = os.Getenv("VERIF_STAGE2") != ""
	scratch := ev.Scratch(strings.ToLower(property) + "-pubrpc")
	defer os.RemoveAll(scratch)
	kv.VerifMemTableSize = 64 << 20
	for i, d := range datasets() {
		checkDataset(run, fmt.Sprintf("%s/d%d", scratch, i), d)
	}
	run.DistinctN(run.Get("requests"))
	run.Assume = []string{"one shard, replication factor 1, no concurrent writers (the cutting of a result into messages is sequential code)"}
	return run.Finish("for each of a fixed family of data sets around the limits of the message cutting (empty values, a value above the byte limit in every position, sums reaching the byte limit, more records than the count limit, empty tails): range scans and lists over every pair of bounds taken from the keys, multi-gets of every contiguous run of keys and of the whole set in both orders, each sent through the real public RPC handler over a real leader controller and compared, message contents concatenated, with the sorted reference")
}

func viol(run *ev.Run, key, msg string) {
	run.Violate(ev.Violation{Key: key, Harness: "public-read-path", Message: msg})
}

func checkDataset(run *ev.Run, dir string, d dataset) {
	ctx := context.Background()
	kvf, err := kv.NewPebbleKVFactory(&kv.FactoryOptions{DataDir: dir + "/db", CacheSizeMB: 8, InMemory: true})
	if err != nil {
		viol(run, "harness-setup", err.Error())
		return
	}
	defer kvf.Close()
	walf := wal.NewWalFactory(&wal.FactoryOptions{BaseWalDir: dir + "/wal", Retention: time.Hour, SegmentSize: 8 << 20, SyncData: false})
	defer walf.Close()
	lc, err := server.NewLeaderController(server.Config{NotificationsRetentionTime: time.Hour}, "ns", 1, nil, walf, kvf)
	if err == nil {
		_, err = lc.NewTerm(&proto.NewTermRequest{Namespace: "ns", Shard: 1, Term: 1, Options: &proto.NewTermOptions{EnableNotifications: false}})
	}
	if err == nil {
		_, err = lc.BecomeLeader(ctx, &proto.BecomeLeaderRequest{Namespace: "ns", Shard: 1, Term: 1, ReplicationFactor: 1, FollowerMaps: map[string]*proto.EntryId{}})
	}
	if err != nil {
		viol(run, "harness-setup", err.Error())
		return
	}
	defer lc.Close()
	for _, r := range d.recs {
		res, err := lc.WriteBlock(ctx, &proto.WriteRequest{Shard: oxh.I64(1), Puts: []*proto.PutRequest{{Key: r.key, Value: r.val}}})
		if err != nil || res.Puts[0].Status != proto.Status_OK {
			viol(run, "harness-setup", fmt.Sprintf("put %q (%d bytes): %v %v", r.key, len(r.val), res, err))
			return
		}
	}
	sorted := append([]rec{}, d.recs...)
	sort.Slice(sorted, func(i, j int) bool { return compare.CompareWithSlash([]byte(sorted[i].key), []byte(sorted[j].key)) < 0 })
	val := map[string][]byte{}
	for _, r := range d.recs {
		val[r.key] = r.val
	}
	// bounds: before everything, every key, after everything (for the large sets: a few of them)
	bounds := []string{""}
	step := 1
	if len(sorted) > 12 {
		step = len(sorted) / 6
	}
	for i := 0; i < len(sorted); i += step {
		bounds = append(bounds, sorted[i].key)
	}
	inRange := func(k, lo, hi string) bool {
		return compare.CompareWithSlash([]byte(lo), []byte(k)) <= 0 && (hi == "" || compare.CompareWithSlash([]byte(k), []byte(hi)) < 0)
	}
	for _, lo := range bounds {
		for _, hi := range append(bounds[1:], "") {
			if hi != "" && compare.CompareWithSlash([]byte(lo), []byte(hi)) >= 0 {
				continue
			}
			var want []rec
			for _, r := range sorted {
				if inRange(r.key, lo, hi) {
					want = append(want, r)
				}
			}
			end := hi
			if end == "" {
				end = "\xff/\xff/\xff/\xff/\xff" // above every user key of the data sets in the hierarchical order
			}
			run.Add("requests", 2)
			run.Add("evaluations", 2)
			// ---- range scan
			msgs, err := server.VerifPublicRangeScan(ctx, lc, &proto.RangeScanRequest{Shard: oxh.I64(1), StartInclusive: lo, EndExclusive: end})
			var got []*proto.GetResponse
			for _, m := range msgs {
				for _, r := range m.Records {
					if !strings.HasPrefix(r.GetKey(), "__oxia/") { // internal records inside the bounds are not the subject here
						got = append(got, r)
					}
				}
			}
			run.Add("range_scan_messages", int64(len(msgs)))
			desc := fmt.Sprintf("data set %s, range [%q,%q)", d.name, lo, hi)
			if err != nil {
				viol(run, "range-scan:error", fmt.Sprintf("%s: %v", desc, err))
			} else if len(got) != len(want) {
				viol(run, "range-scan:record-count", fmt.Sprintf("%s: %d records in %d messages, the sorted reference holds %d (first keys received %v)", desc, len(got), len(msgs), len(want), firstKeys(got)))
			} else {
				for i := range want {
					if got[i].GetKey() != want[i].key || string(got[i].Value) != string(want[i].val) {
						viol(run, "range-scan:wrong-record-at-position", fmt.Sprintf("%s: position %d is %q (%d value bytes), the sorted reference has %q (%d value bytes)", desc, i, got[i].GetKey(), len(got[i].Value), want[i].key, len(want[i].val)))
						break
					}
				}
			}
			// ---- list
			lmsgs, err := server.VerifPublicList(ctx, lc, &proto.ListRequest{Shard: oxh.I64(1), StartInclusive: lo, EndExclusive: end})
			var keys []string
			for _, m := range lmsgs {
				for _, k := range m.Keys {
					if !strings.HasPrefix(k, "__oxia/") {
						keys = append(keys, k)
					}
				}
			}
			if err != nil {
				viol(run, "list:error", fmt.Sprintf("%s: %v", desc, err))
			} else if len(keys) != len(want) {
				viol(run, "list:key-count", fmt.Sprintf("%s: %d keys, the sorted reference holds %d", desc, len(keys), len(want)))
			} else {
				for i := range want {
					if keys[i] != want[i].key {
						viol(run, "list:wrong-key-at-position", fmt.Sprintf("%s: position %d is %q, the sorted reference has %q", desc, i, keys[i], want[i].key))
						break
					}
				}
			}
		}
	}
	// ---- multi-gets: every contiguous run of (at most 4) keys in insertion order, and the whole set reversed
	var reqs [][]string
	n := len(d.recs)
	if n > 12 {
		n = 12
	}
	for i := 0; i < n; i++ {
		for j := i + 1; j <= n && j <= i+4; j++ {
			var ks []string
			for _, r := range d.recs[i:j] {
				ks = append(ks, r.key)
			}
			reqs = append(reqs, append(ks, "missing-key"))
		}
	}
	if n > 0 {
		var rev []string
		for i := n - 1; i >= 0; i-- {
			rev = append(rev, d.recs[i].key)
		}
		reqs = append(reqs, rev)
	}
	for _, ks := range reqs {
		req := &proto.ReadRequest{Shard: oxh.I64(1)}
		for _, k := range ks {
			req.Gets = append(req.Gets, &proto.GetRequest{Key: k, IncludeValue: true})
		}
		run.Add("requests", 1)
		run.Add("evaluations", 1)
		msgs, err := server.VerifPublicRead(ctx, lc, req)
		var got []*proto.GetResponse
		for _, m := range msgs {
			got = append(got, m.Gets...)
		}
		desc := fmt.Sprintf("data set %s, multi-get %v", d.name, ks)
		if err != nil {
			viol(run, "read:error", fmt.Sprintf("%s: %v", desc, err))
			continue
		}
		if len(got) != len(ks) {
			viol(run, "read:answer-count", fmt.Sprintf("%s: %d answers for %d gets", desc, len(got), len(ks)))
			continue
		}
		for i, k := range ks {
			v, ok := val[k]
			switch {
			case !ok && got[i].Status != proto.Status_KEY_NOT_FOUND:
				viol(run, "read:answer-of-another-get", fmt.Sprintf("%s: position %d (%q, absent) answered %v with %d value bytes", desc, i, k, got[i].Status, len(got[i].Value)))
			case ok && (got[i].Status != proto.Status_OK || string(got[i].Value) != string(v)):
				viol(run, "read:answer-of-another-get", fmt.Sprintf("%s: position %d (%q, %d value bytes stored) answered %v with %d value bytes", desc, i, k, len(v), got[i].Status, len(got[i].Value)))
			}
		}
	}
}

func firstKeys(g []*proto.GetResponse) []string {
	var out []string
	for i, r := range g {
		if i == 5 {
			break
		}
		out = append(out, r.GetKey())
	}
	return out
}
