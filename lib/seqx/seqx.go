// Package seqx is the E1 engine: explicit-state breadth-first search over
// operation sequences of a *real* object. A state is represented by the
// operation history that reaches it; successors are computed by replaying the
// history on a fresh instance and applying one more operation. States are
// de-duplicated by a canonical key supplied by the harness.
package seqx

import (
	"crypto/sha256"
	"fmt"
	"runtime"
	"sort"
	"sync"
	"sync/atomic"
	"time"

	"verif/lib/ev"
)

// Instance is one fresh copy of the system under test together with its
// reference model.
type Instance interface {
	// Step applies operation op. enabled=false means the operation is not
	// applicable in this state (nothing was done). A non-nil violation means the
	// oracle failed at this step.
	Step(op int) (enabled bool, v *ev.Violation)
	// Key returns the canonical state (real object dump + model) after the steps so far.
	Key() string
	Close()
}

type Spec struct {
	Name     string
	Config   string // free text put into replays
	NOps     int
	OpName   func(i int) string
	New      func(worker int) Instance
	MaxDepth int
	Workers  int
	Deadline time.Time // zero = none
	// MaxViolations stops the search early once that many were found (0 = 20).
	MaxViolations int
}

type Result struct {
	States      int64
	Transitions int64
	Depth       int  // deepest level fully expanded
	Exhaustive  bool // false if the deadline cut the search
	Violations  []ev.Violation
	LevelSizes  []int
}

type cand struct {
	parent int
	op     int
	key    [32]byte
}

// Replay runs a history on a fresh instance and returns the first violation.
func Replay(s Spec, hist []int) *ev.Violation {
	in := s.New(0)
	defer in.Close()
	for i, op := range hist {
		en, v := in.Step(op)
		if !en {
			return &ev.Violation{Key: "replay-divergence", Harness: s.Name, Message: fmt.Sprintf("op %d (%s) not enabled during replay", i, s.OpName(op))}
		}
		if v != nil {
			return v
		}
	}
	return nil
}

func Names(s Spec, hist []int) []string {
	out := make([]string, len(hist))
	for i, op := range hist {
		out[i] = s.OpName(op)
	}
	return out
}

func Explore(s Spec) Result {
	if s.Workers <= 0 {
		s.Workers = runtime.NumCPU()
	}
	if s.MaxViolations == 0 {
		s.MaxViolations = 20
	}
	res := Result{Exhaustive: true}
	seen := map[[32]byte]struct{}{}
	// initial state
	{
		in := s.New(0)
		seen[sha256.Sum256([]byte(in.Key()))] = struct{}{}
		in.Close()
	}
	frontier := [][]int{{}}
	res.States = 1
	var vmu sync.Mutex
	for depth := 0; depth < s.MaxDepth && len(frontier) > 0; depth++ {
		var next int64 = -1
		results := make([][]cand, len(frontier))
		var trans atomic.Int64
		var cut atomic.Bool
		var wg sync.WaitGroup
		for w := 0; w < s.Workers; w++ {
			wg.Add(1)
			go func(w int) {
				defer wg.Done()
				for {
					i := int(atomic.AddInt64(&next, 1))
					if i >= len(frontier) {
						return
					}
					if !s.Deadline.IsZero() && time.Now().After(s.Deadline) {
						cut.Store(true)
						return
					}
					vmu.Lock()
					nv := len(res.Violations)
					vmu.Unlock()
					if nv >= s.MaxViolations {
						cut.Store(true)
						return
					}
					h := frontier[i]
					for op := 0; op < s.NOps; op++ {
						in := s.New(w)
						bad := false
						for _, p := range h {
							en, v := in.Step(p)
							if !en || v != nil {
								bad = true
								break
							}
						}
						if bad {
							// nondeterminism in the harness: prefix replay diverged
							vmu.Lock()
							res.Violations = append(res.Violations, ev.Violation{Key: "harness-nondeterminism", Harness: s.Name,
								Message: "replay of an accepted prefix diverged", Replay: map[string]any{"config": s.Config, "ops": Names(s, h)}})
							vmu.Unlock()
							in.Close()
							continue
						}
						en, v := in.Step(op)
						if !en {
							in.Close()
							continue
						}
						trans.Add(1)
						if v != nil {
							hist := append(append([]int{}, h...), op)
							if v.Harness == "" {
								v.Harness = s.Name
							}
							v.Replay = map[string]any{"config": s.Config, "ops": Names(s, hist), "indices": hist}
							vmu.Lock()
							res.Violations = append(res.Violations, *v)
							vmu.Unlock()
							in.Close()
							continue
						}
						k := sha256.Sum256([]byte(in.Key()))
						in.Close()
						results[i] = append(results[i], cand{parent: i, op: op, key: k})
					}
				}
			}(w)
		}
		wg.Wait()
		res.Transitions += trans.Load()
		if cut.Load() {
			res.Exhaustive = false
			break
		}
		var nf [][]int
		for i := range results {
			for _, c := range results[i] {
				if _, ok := seen[c.key]; ok {
					continue
				}
				seen[c.key] = struct{}{}
				nf = append(nf, append(append(make([]int, 0, len(frontier[i])+1), frontier[i]...), c.op))
			}
		}
		res.Depth = depth + 1
		res.LevelSizes = append(res.LevelSizes, len(nf))
		frontier = nf
	}
	res.States = int64(len(seen))
	sort.SliceStable(res.Violations, func(i, j int) bool { return res.Violations[i].Key < res.Violations[j].Key })
	return res
}

// Report folds a result into the run's evidence.
func Report(r *ev.Run, s Spec, res Result) {
	r.Add("states", res.States)
	r.Add("transitions", res.Transitions)
	r.Add("traces_validated_against_impl", res.Transitions)
	r.Add("evaluations", res.Transitions)
	if !res.Exhaustive {
		r.NotExhaustive(fmt.Sprintf("%s[%s]: cut by deadline/violation cap at depth %d", s.Name, s.Config, res.Depth))
	}
	r.Note(fmt.Sprintf("%s[%s]: depth=%d states=%d transitions=%d levels=%v", s.Name, s.Config, res.Depth, res.States, res.Transitions, res.LevelSizes))
	for _, v := range res.Violations {
		r.Violate(v)
	}
}
