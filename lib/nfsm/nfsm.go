// Package nfsm model-checks one storage node as a protocol state machine across its roles: every
// sequence of protocol events up to a depth (new-term requests with the next / the same / a stale
// term, BecomeLeader with the current / a stale term, client puts and gets, appends from a leader
// while the node follows, graceful restart, process crash) is replayed from scratch on a real
// server.Server (shards director, leader / follower controllers, real WAL, real Pebble on a real
// directory; the other two members of the ensemble are scripted followers that acknowledge every
// entry) under the cooperative scheduler's default schedule. After every event: the term the
// node has answered for never goes back; stale requests are refused; a fenced node takes no
// client write; what the node applied is the fold of its own log up to the commit offset its
// database records; and whenever the node leads, every acknowledged write is readable with the
// value and version it was acknowledged with.
package nfsm

import (
	"context"
	"encoding/json"
	"flag"
	"fmt"
	"os"
	"os/exec"
	"path/filepath"
	"sort"
	"strings"
	"sync"
	"time"

	"github.com/oxia-db/oxia/proto"
	"github.com/oxia-db/oxia/server"
	"github.com/oxia-db/oxia/server/kv"
	"github.com/oxia-db/oxia/server/wal"
	"github.com/oxia-db/oxia/zzverif/vsched"

	"verif/lib/ev"
	"verif/lib/oxc"
	"verif/lib/oxh"
)

const (
	opNewTermNext = iota
	opNewTermSame
	opNewTermStale
	opBecomeLeader
	opBecomeLeaderStale
	opPut
	opPutOther
	opGet
	opFollowerAppend
	opRestart
	opCrash
	nOps
)

var opNames = []string{"NewTerm(+1)", "NewTerm(same)", "NewTerm(stale)", "BecomeLeader", "BecomeLeader(stale term)", "Put(k0)", "Put(k1)", "Get(k0,k1)",
	"Append(from the term's leader)", "Restart", "Crash"}

type fail struct {
	Key string `json:"key"`
	Msg string `json:"msg"`
}

type outcome struct {
	Applicable bool   `json:"applicable"`
	Fails      []fail `json:"fails"`
	Sig        string `json:"sig"`
}

const ns, shard = "ns", int64(1)

// acker is a scripted member of the ensemble: it stores nothing and acknowledges everything.
type acker struct{}

func (acker) Replicate(stream proto.OxiaLogReplication_ReplicateServer) error {
	for {
		a, err := stream.Recv()
		if err != nil {
			return err
		}
		if err := stream.Send(&proto.Ack{Offset: a.Entry.Offset}); err != nil {
			return err
		}
	}
}
func (acker) SendSnapshot(proto.OxiaLogReplication_SendSnapshotServer) error {
	return fmt.Errorf("unexpected snapshot")
}
func (acker) Truncate(req *proto.TruncateRequest) (*proto.TruncateResponse, error) {
	return &proto.TruncateResponse{HeadEntryId: req.HeadEntryId}, nil
}

type endpoint struct{ n *node }

func (e endpoint) Replicate(st proto.OxiaLogReplication_ReplicateServer) error {
	return e.n.srv.Replicate(st)
}
func (e endpoint) SendSnapshot(st proto.OxiaLogReplication_SendSnapshotServer) error {
	return e.n.srv.SendSnapshot(st)
}
func (e endpoint) Truncate(req *proto.TruncateRequest) (*proto.TruncateResponse, error) {
	return e.n.srv.Truncate(context.Background(), req)
}

type acked struct {
	val string
	ver int64
}

type node struct {
	s    *vsched.Sched
	dir  string
	gen  int
	grp  int
	net  *oxc.Net
	srv  *server.Server
	kvf  kv.Factory
	walf wal.Factory
	// model
	ackTerm   int64 // highest term a NewTerm was answered for
	leading   bool  // BecomeLeader(ackTerm) succeeded and nothing fenced the node since
	following bool  // the node has taken an append in ackTerm
	model     map[string]acked
	nextID    int
	last      int64 // last offset the node holds (model)
	stream    proto.OxiaLogReplication_ReplicateClient
	sterm     int64
	acks      *[]int64
	fails     []fail
	// fencedHead: head the node reported in its last NewTerm answer, while nothing happened since
	fencedHead *proto.EntryId
}

func (n *node) failf(key, f string, a ...any) {
	for _, x := range n.fails {
		if x.Key == key {
			return
		}
	}
	n.fails = append(n.fails, fail{key, fmt.Sprintf(f, a...)})
}

func (n *node) open() error {
	n.gen++
	n.grp = 100 + n.gen
	prev := n.s.Cur().Group
	n.s.SetGroup(n.grp)
	defer n.s.SetGroup(prev)
	pf, err := kv.NewPebbleKVFactory(&kv.FactoryOptions{DataDir: filepath.Join(n.dir, "db"), CacheSizeMB: 1})
	if err != nil {
		return err
	}
	n.kvf = pf
	n.walf = wal.NewWalFactory(&wal.FactoryOptions{BaseWalDir: filepath.Join(n.dir, "wal"), Retention: time.Hour, SegmentSize: 64 * 1024, SyncData: true})
	srv, err := server.VerifNewServer(server.Config{NotificationsRetentionTime: time.Hour}, n.walf, n.kvf, n.net)
	if err != nil {
		return err
	}
	n.srv = srv
	n.net.Peers["n1"] = endpoint{n}
	n.stream, n.acks = nil, nil
	n.leading, n.following = false, false
	return nil
}

func (n *node) controllers() (server.LeaderController, server.FollowerController) {
	return server.VerifControllers(n.srv, shard)
}

func (n *node) db() kv.DB {
	lc, fc := n.controllers()
	if lc != nil {
		return server.VerifLeaderDB(lc)
	}
	if fc != nil {
		return server.VerifFollowerDB(fc)
	}
	return nil
}

func (n *node) wal() wal.Wal {
	lc, fc := n.controllers()
	if lc != nil {
		return server.VerifLeaderWal(lc)
	}
	if fc != nil {
		return server.VerifFollowerWal(fc)
	}
	return nil
}

func (n *node) term() (int64, bool) {
	lc, fc := n.controllers()
	if lc == nil && fc == nil {
		return -1, false
	}
	st, err := n.srv.GetStatus(context.Background(), &proto.GetStatusRequest{Shard: shard})
	if err != nil {
		return -1, false
	}
	return st.Term, true
}

func (n *node) head() *proto.EntryId {
	w := n.wal()
	if w == nil || w.LastOffset() < 0 {
		return &proto.EntryId{Term: -1, Offset: -1}
	}
	rd, err := w.NewReverseReader()
	if err != nil {
		return &proto.EntryId{Term: -1, Offset: w.LastOffset()}
	}
	defer rd.Close()
	if rd.HasNext() {
		if e, err := rd.ReadNext(); err == nil {
			return &proto.EntryId{Term: e.Term, Offset: e.Offset}
		}
	}
	return &proto.EntryId{Term: -1, Offset: w.LastOffset()}
}

func (n *node) put(key string) (string, *proto.WriteResponse, error) {
	n.nextID++
	val := fmt.Sprintf("v%d", n.nextID)
	type res struct {
		r   *proto.WriteResponse
		err error
	}
	ch := make(chan res, 1)
	t := n.s.Go("client-write", func() {
		// every record declares a secondary-index entry: what the index callbacks write is part of the state the fold oracle compares
		r, err := n.srv.Write(context.Background(), &proto.WriteRequest{Shard: oxh.I64(shard), Puts: []*proto.PutRequest{{Key: key, Value: []byte(val),
			SecondaryIndexes: []*proto.SecondaryIndex{{IndexName: "byval", SecondaryKey: val}}}}})
		vsched.Send(ch)(res{r, err})
	})
	t.Group = n.grp
	n.s.Settle()
	r := vsched.Select(true, vsched.RecvCase(ch))
	if r.I != 0 {
		return val, nil, fmt.Errorf("write did not complete")
	}
	x := r.Val.(res)
	return val, x.r, x.err
}

func (n *node) get(key string) (*proto.GetResponse, error) {
	lc, _ := n.controllers()
	if lc == nil {
		return nil, fmt.Errorf("not leader")
	}
	return server.VerifLeaderDB(lc).Get(&proto.GetRequest{Key: key, IncludeValue: true})
}

func (n *node) step(op int) bool {
	s := n.s
	ctx := context.Background()
	switch op {
	case opNewTermNext, opNewTermSame, opNewTermStale:
		t := n.ackTerm
		if op == opNewTermNext {
			t = n.ackTerm + 1
		} else if op == opNewTermStale {
			t = n.ackTerm - 1
		}
		if t < 0 {
			return false
		}
		resp, err := n.srv.NewTerm(ctx, &proto.NewTermRequest{Namespace: ns, Shard: shard, Term: t, Options: &proto.NewTermOptions{EnableNotifications: true}})
		s.Settle()
		if op == opNewTermStale {
			if err == nil {
				n.failf("stale-newterm-accepted", "NewTerm(%d) accepted by a node that had answered NewTerm(%d)", t, n.ackTerm)
			}
			return true
		}
		if err != nil {
			// a duplicate NewTerm of the current term is refused by a node that leads or follows in it: legitimate
			return op == opNewTermSame
		}
		n.ackTerm = t
		n.leading, n.following = false, false
		n.stream = nil
		n.fencedHead = resp.HeadEntryId
		h := n.head()
		if resp.HeadEntryId.Offset != h.Offset || (h.Offset >= 0 && resp.HeadEntryId.Term != h.Term) {
			n.failf("reported-head-not-log-end", "NewTerm(%d) answered head (%d,%d) but the log ends at (%d,%d)", t, resp.HeadEntryId.Term, resp.HeadEntryId.Offset, h.Term, h.Offset)
		}
	case opBecomeLeader, opBecomeLeaderStale:
		t := n.ackTerm
		if op == opBecomeLeaderStale {
			t = n.ackTerm - 1
		}
		if t < 0 || n.leading || n.fencedHead == nil {
			// the coordinator sends BecomeLeader to a node it has just fenced, with the heads the fenced nodes reported
			return false
		}
		h := n.fencedHead
		fm := map[string]*proto.EntryId{"f1": h, "f2": h}
		type res struct{ err error }
		ch := make(chan res, 1)
		th := s.Go("rpc:BecomeLeader", func() {
			_, err := n.srv.BecomeLeader(ctx, &proto.BecomeLeaderRequest{Namespace: ns, Shard: shard, Term: t, ReplicationFactor: 3, FollowerMaps: fm})
			vsched.Send(ch)(res{err})
		})
		th.Group = n.grp
		s.Settle()
		r := vsched.Select(true, vsched.RecvCase(ch))
		if r.I != 0 {
			n.failf("become-leader-stuck", "BecomeLeader(%d) with two acknowledging followers never returned", t)
			return true
		}
		err := r.Val.(res).err
		if op == opBecomeLeaderStale {
			if err == nil {
				n.failf("stale-become-leader-accepted", "BecomeLeader(%d) accepted by a node that had answered NewTerm(%d)", t, n.ackTerm)
			}
			return true
		}
		if err != nil {
			n.failf("become-leader-failed", "BecomeLeader(%d) on a node just fenced for that term, with two healthy followers: %v", t, err)
			return true
		}
		n.leading = true
		n.fencedHead = nil
		n.last = n.head().Offset
	case opPut, opPutOther:
		key := "k0"
		if op == opPutOther {
			key = "k1"
		}
		val, resp, err := n.put(key)
		if !n.leading {
			if err == nil && resp != nil && len(resp.Puts) == 1 && resp.Puts[0].Status == proto.Status_OK {
				n.failf("write-accepted-by-non-leader", "a client put succeeded on a node that is not leader of term %d (fenced / following / restarted)", n.ackTerm)
			}
			return true
		}
		if err != nil || resp == nil || len(resp.Puts) != 1 || resp.Puts[0].Status != proto.Status_OK {
			n.failf("write-failed", "put %s on the leader of term %d with two acknowledging followers: %v %v", key, n.ackTerm, resp, err)
			return true
		}
		ver := resp.Puts[0].Version.VersionId
		if prev, ok := n.model[key]; ok && ver <= prev.ver {
			n.failf("version-id-not-increasing", "put %s acknowledged with version %d after version %d had been acknowledged", key, ver, prev.ver)
		}
		n.model[key] = acked{val, ver}
		n.last = n.head().Offset
	case opGet:
		if !n.leading {
			return false
		}
		n.checkReads("Get")
	case opFollowerAppend:
		if n.ackTerm < 0 || n.leading {
			return false
		}
		if n.stream == nil || n.sterm != n.ackTerm || n.stream.Context().Err() != nil {
			st, err := n.net.GetReplicateStream(ctx, "n1", ns, shard, n.ackTerm)
			if err != nil {
				return true
			}
			acks := &[]int64{}
			n.stream, n.sterm, n.acks = st, n.ackTerm, acks
			vsched.Go(func() {
				for {
					a, err := st.Recv()
					if err != nil {
						return
					}
					*acks = append(*acks, a.Offset)
				}
			})
		}
		off := n.last + 1 // (a restarted node has no controller, hence no log to ask, until the first request reaches it)
		n.nextID++
		key, val := fmt.Sprintf("k%d", n.nextID%2), fmt.Sprintf("v%d", n.nextID)
		lev := &proto.LogEntryValue{Value: &proto.LogEntryValue_Requests{Requests: &proto.WriteRequests{Writes: []*proto.WriteRequest{
			{Shard: oxh.I64(shard), Puts: []*proto.PutRequest{{Key: key, Value: []byte(val), SecondaryIndexes: []*proto.SecondaryIndex{{IndexName: "byval", SecondaryKey: val}}}}}}}}}
		b, _ := lev.MarshalVT()
		before := len(*n.acks)
		// the leader of this term advertises everything it sends as committed (the other follower is fast)
		if err := n.stream.Send(&proto.Append{Term: n.ackTerm, Entry: &proto.LogEntry{Term: n.ackTerm, Offset: off, Value: b, Timestamp: uint64(1_700_000_000_000 + off)}, CommitOffset: off}); err != nil {
			return true
		}
		s.Settle()
		n.fencedHead = nil
		if len(*n.acks) > before {
			n.following = true
			n.last = off
			// the version id a put gets is decided by the log: learn it from the node once it has applied the entry
			if db := n.db(); db != nil {
				if g, err := db.Get(&proto.GetRequest{Key: key, IncludeValue: true}); err == nil && g.Status == proto.Status_OK && string(g.Value) == val {
					n.model[key] = acked{val, g.Version.VersionId}
				} else {
					n.failf("committed-entry-not-applied", "the node acknowledged offset %d (advertised as committed) but a read of %s from its database gives %v %v", off, key, g, err)
				}
			}
		}
	case opRestart, opCrash:
		if op == opRestart {
			_ = n.srv.Close() // closes the storage factories too
			s.Settle()
		} else {
			lc, fc := n.controllers()
			n.s.KillGroup(n.grp)
			func() {
				defer func() { _ = recover() }()
				if db := n.dbOf(lc, fc); db != nil {
					_ = kv.VerifPebble(kv.VerifKV(db)).Close()
				}
			}()
			if lc != nil {
				wal.VerifForceClose(server.VerifLeaderWal(lc))
			}
			if fc != nil {
				wal.VerifForceClose(server.VerifFollowerWal(fc))
			}
		}
		n.fencedHead = nil
		if err := n.open(); err != nil {
			n.failf("restart-failed", "%s: the node does not come back: %v", opNames[op], err)
			return true
		}
		s.Settle()
	}
	return true
}

func (n *node) dbOf(lc server.LeaderController, fc server.FollowerController) kv.DB {
	if lc != nil {
		return server.VerifLeaderDB(lc)
	}
	if fc != nil {
		return server.VerifFollowerDB(fc)
	}
	return nil
}

func (n *node) checkReads(after string) {
	var keys []string
	for k := range n.model {
		keys = append(keys, k)
	}
	sort.Strings(keys)
	for _, k := range keys {
		want := n.model[k]
		g, err := n.get(k)
		if err != nil || g == nil {
			continue
		}
		if g.Status != proto.Status_OK {
			n.failf("acked-write-lost", "after %s the leader of term %d does not have %s (acknowledged value %q, version %d): %v", after, n.ackTerm, k, want.val, want.ver, g.Status)
		} else if string(g.Value) != want.val || g.Version.VersionId != want.ver {
			n.failf("acked-write-lost", "after %s the leader of term %d returns %s = %q (version %d), acknowledged was %q (version %d)", after, n.ackTerm, k, g.Value, g.Version.VersionId, want.val, want.ver)
		}
	}
}

func (n *node) invariants(after string) {
	if t, ok := n.term(); ok && t < n.ackTerm {
		n.failf("node-term-decreased", "after %s the node is at term %d although it had answered NewTerm(%d)", after, t, n.ackTerm)
	}
	if n.leading {
		n.checkReads(after)
	}
	db, w := n.db(), n.wal()
	if db == nil || w == nil {
		return
	}
	c, err := db.ReadCommitOffset()
	if err != nil {
		return
	}
	if c > w.LastOffset() && w.LastOffset() >= 0 {
		n.failf("commit-offset-ahead-of-log", "after %s the database records commit offset %d, the log ends at %d", after, c, w.LastOffset())
		return
	}
	if c < 0 || w.FirstOffset() > 0 {
		return
	}
	var entries []*proto.LogEntry
	rd, err := w.NewReader(-1)
	if err != nil {
		return
	}
	for rd.HasNext() {
		e, err := rd.ReadNext()
		if err != nil {
			break
		}
		if e.Offset > c {
			break
		}
		entries = append(entries, e)
	}
	_ = rd.Close()
	if int64(len(entries)) != c+1 {
		return
	}
	if d := oxc.FoldDiffers(ns, shard, db, entries, c); d != "" {
		n.failf("state-not-fold-of-log", "after %s the database (commit offset %d) differs from applying its own log entries 0..%d in order:\n %s", after, c, c, d)
	}
}

func body(seq []int, out *outcome) func(s *vsched.Sched) {
	return func(s *vsched.Sched) {
		s.Explore(false)
		env := oxc.NewEnv(s)
		n := &node{s: s, dir: filepath.Join(env.Dir, "n1"), net: oxc.NewNet(), ackTerm: -1, model: map[string]acked{}, last: -1}
		n.net.Peers["f1"], n.net.Peers["f2"] = acker{}, acker{}
		defer func() {
			if n.srv != nil {
				_ = n.srv.Close()
				s.Settle()
			}
		}()
		if err := n.open(); err != nil {
			out.Fails = append(out.Fails, fail{"harness-setup", err.Error()})
			return
		}
		s.Settle()
		out.Applicable = true
		for i, op := range seq {
			if !n.step(op) {
				if i == len(seq)-1 {
					out.Applicable = false
				}
				return
			}
			n.invariants(opNames[op])
			if len(n.fails) > 0 {
				break
			}
		}
		out.Fails = n.fails
		t, _ := n.term()
		h := n.head()
		out.Sig = fmt.Sprintf("term=%d ack=%d leading=%v following=%v log=(%d,%d) keys=%d", t, n.ackTerm, n.leading, n.following, h.Term, h.Offset, len(n.model))
	}
}

func runSeq(seq []int) outcome {
	var out outcome
	cfg := vsched.Config{MaxSteps: 400000, MaxTime: int64(10 * time.Minute)}
	x := vsched.RunOne(&cfg, nil, nil, body(seq, &out))
	if x.Panic != "" {
		out.Fails = append(out.Fails, fail{"panic", x.Panic})
	}
	for _, f := range x.Fails {
		out.Fails = append(out.Fails, fail{f.Key, f.Msg})
	}
	return out
}

type wresult struct {
	Runs       int64            `json:"runs"`
	Applicable int64            `json:"applicable"`
	ByDepth    map[int]int64    `json:"by_depth"`
	Sigs       map[string]int64 `json:"sigs"`
	Fails      map[string][]any `json:"fails"`
	Cut        bool             `json:"cut"`
	Completed  int              `json:"completed"`
}

func names(seq []int) []string {
	var o []string
	for _, x := range seq {
		o = append(o, opNames[x])
	}
	return o
}

func worker(idx, nw int, depths []int, deadline time.Time, keep map[string]bool) wresult {
	r := wresult{ByDepth: map[int]int64{}, Sigs: map[string]int64{}, Fails: map[string][]any{}}
	prev := 0
	for _, depth := range depths {
		workerPass(&r, idx, nw, prev, depth, deadline, keep)
		if r.Cut {
			break
		}
		r.Completed = depth
		prev = depth
	}
	return r
}

func workerPass(r *wresult, idx, nw, prev, depth int, deadline time.Time, keep map[string]bool) {
	var rec func(seq []int)
	rec = func(seq []int) {
		if time.Now().After(deadline) {
			r.Cut = true
			return
		}
		if len(seq) == 2 && (seq[0]*nOps+seq[1])%nw != idx {
			return
		}
		mine := (len(seq) >= 2 || idx == 0) && len(seq) > prev
		var o outcome
		o.Applicable = true
		if len(seq) > 0 {
			o = runSeq(seq)
			if mine {
				r.Runs++
			}
		}
		if !o.Applicable {
			return
		}
		if len(seq) > 0 && mine {
			r.Applicable++
			r.ByDepth[len(seq)]++
			if len(r.Sigs) < 4000 {
				r.Sigs[o.Sig]++
			}
			for _, f := range o.Fails {
				if keep != nil && !keep[f.Key] {
					continue
				}
				if cur, ok := r.Fails[f.Key]; !ok || len(cur[0].([]int)) > len(seq) {
					cnt := int64(0)
					if ok {
						cnt = cur[2].(int64)
					}
					r.Fails[f.Key] = []any{append([]int{}, seq...), f.Msg, cnt + 1}
				} else {
					cur[2] = cur[2].(int64) + 1
				}
			}
		}
		if len(o.Fails) > 0 || len(seq) >= depth {
			return
		}
		for op := 0; op < nOps; op++ {
			rec(append(append([]int{}, seq...), op))
		}
	}
	rec(nil)
}

// Main runs the search for one property. keep selects the failure keys that count for it.
func Main(property string, keep map[string]bool) int {
	replay := flag.String("replay", "", "replay file")
	flag.Parse()
	oxh.Quiet()
	tier := os.Getenv("VERIF_TIER")
	depth := 5
	budget := 70 * time.Second
	if tier == "thorough" {
		depth = 7
		budget = 20 * time.Minute
	}
	depths := []int{depth}
	if tier == "thorough" {
		depths = []int{depth - 1, depth}
	}
	if d := os.Getenv("VERIF_DEPTH"); d != "" {
		fmt.Sscanf(d, "%d", &depth)
		depths = []int{depth}
	}
	if *replay != "" {
		var doc struct {
			First struct {
				Replay struct {
					Seq []int `json:"nseq"`
				} `json:"replay"`
			} `json:"first"`
		}
		if err := ev.ReadJSON(*replay, &doc); err != nil {
			fmt.Println("cannot read replay:", err)
			return 2
		}
		o := runSeq(doc.First.Replay.Seq)
		fmt.Println("events:", names(doc.First.Replay.Seq))
		fmt.Println("end state:", o.Sig)
		bad := false
		for _, f := range o.Fails {
			if keep == nil || keep[f.Key] {
				fmt.Printf("  %s: %s\n", f.Key, f.Msg)
				bad = true
			}
		}
		if bad {
			fmt.Printf("VIOLATION property=%s replay=%s\n", property, *replay)
			return 1
		}
		fmt.Println("replay passed")
		return 0
	}
	if w := os.Getenv("VERIF_WORKER"); w != "" {
		var idx, nw int
		fmt.Sscanf(w, "%d/%d", &idx, &nw)
		var dl int64
		fmt.Sscanf(os.Getenv("VERIF_DEADLINE"), "%d", &dl)
		r := worker(idx, nw, depths, time.Unix(dl, 0), keep)
		b, _ := json.Marshal(r)
		_ = os.WriteFile(os.Getenv("VERIF_WORKER_OUT"), b, 0o644)
		return 0
	}
	run := ev.NewRun(property, "model_checking")
	run.MergeExisting = os.Getenv("VERIF_STAGE2") != ""
	nw := 16
	if v := os.Getenv("VERIF_WORKERS"); v != "" {
		fmt.Sscanf(v, "%d", &nw)
	}
	deadline := time.Now().Add(budget)
	scratch := ev.Scratch(strings.ToLower(property) + "-nfsm")
	defer os.RemoveAll(scratch)
	results := make([]*wresult, nw)
	var wg sync.WaitGroup
	failed := false
	for i := 0; i < nw; i++ {
		wg.Add(1)
		go func(i int) {
			defer wg.Done()
			outf := fmt.Sprintf("%s/w%d.json", scratch, i)
			cmd := exec.Command(os.Args[0])
			cmd.Env = append(os.Environ(), fmt.Sprintf("VERIF_WORKER=%d/%d", i, nw), "VERIF_WORKER_OUT="+outf,
				fmt.Sprintf("VERIF_DEADLINE=%d", deadline.Unix()), "GOMAXPROCS=2", "GOMEMLIMIT=900MiB", "VERIF_SCRATCH="+scratch)
			cmd.Stderr = os.Stderr
			wd := time.AfterFunc(time.Until(deadline)+2*time.Minute, func() {
				if cmd.Process != nil {
					_ = cmd.Process.Kill()
				}
			})
			err := cmd.Run()
			wd.Stop()
			if err != nil {
				failed = true
				fmt.Fprintf(os.Stderr, "worker %d failed: %v\n", i, err)
				return
			}
			b, err := os.ReadFile(outf)
			if err != nil {
				failed = true
				return
			}
			var r wresult
			if json.Unmarshal(b, &r) == nil {
				results[i] = &r
			}
		}(i)
	}
	wg.Wait()
	if failed {
		fmt.Fprintln(os.Stderr, "a worker process failed (infrastructure)")
		return 2
	}
	sigs := map[string]bool{}
	byDepth := map[int]int64{}
	type fv struct {
		seq []int
		msg string
		cnt int64
	}
	fails := map[string]*fv{}
	var runs, appl int64
	cut, completed := false, depth
	for _, r := range results {
		if r == nil {
			continue
		}
		runs += r.Runs
		appl += r.Applicable
		if r.Cut {
			cut = true
		}
		if r.Completed < completed {
			completed = r.Completed
		}
		for k := range r.Sigs {
			sigs[k] = true
		}
		for d, c := range r.ByDepth {
			byDepth[d] += c
		}
		for k, v := range r.Fails {
			var seq []int
			for _, x := range v[0].([]any) {
				seq = append(seq, int(x.(float64)))
			}
			cnt := int64(v[2].(float64))
			if cur, ok := fails[k]; !ok || len(seq) < len(cur.seq) {
				c := cnt
				if ok {
					c += cur.cnt
				}
				fails[k] = &fv{seq, v[1].(string), c}
			} else {
				cur.cnt += cnt
			}
		}
	}
	run.Add("states", appl)
	run.Add("transitions", runs)
	run.Add("traces_validated_against_impl", runs)
	run.Add("evaluations", runs)
	run.DistinctN(int64(len(sigs)))
	if cut {
		run.NotExhaustive(fmt.Sprintf("deadline reached: every event sequence up to length %d was run, those of length %d only in part", completed, depth))
	}
	run.Coverage["max_depth"] = depth
	run.Coverage["max_depth_completed"] = completed
	run.Coverage["event_alphabet"] = opNames
	run.Coverage["applicable_sequences_by_length"] = byDepth
	run.Sample(map[string]any{"events": []string{opNames[opNewTermNext], opNames[opBecomeLeader], opNames[opPut], opNames[opCrash], opNames[opNewTermNext], opNames[opBecomeLeader], opNames[opGet]}})
	run.Assume = []string{"the node's threads run under the cooperative scheduler with its default schedule: this search enumerates event sequences, not interleavings (the schedule stages do that)",
		"the other two members of the ensemble are scripted followers that acknowledge every entry; the follower map of BecomeLeader gives them the node's own head",
		"a crash kills the node's threads and releases the storage engine without its orderly shutdown: everything written to files is there, what Pebble only holds in memory is not",
		"entries a leader appends to the node while it follows are advertised as committed"}
	var keys []string
	for k := range fails {
		keys = append(keys, k)
	}
	sort.Strings(keys)
	for _, k := range keys {
		f := fails[k]
		run.Violate(ev.Violation{Key: k, Harness: "node-fsm", Message: fmt.Sprintf("events %v: %s (%d sequences)", names(f.seq), f.msg, f.cnt),
			Replay: map[string]any{"nseq": f.seq, "events": names(f.seq)}})
	}
	return run.Finish("every sequence of node protocol events (11-event alphabet) up to max_depth, replayed from scratch on a real server (director + controllers) with two scripted acknowledging followers; a sequence is counted when its last event is applicable in the state reached; distinct = distinct end states (term, role, log end, acknowledged keys)")
}
