#!/usr/bin/env python3
"""Build the go -overlay JSON.
 * every *.go file under /verif/overlay/<rel> is added at /repo/<rel>;
 * /verif/overlay/PATCHES.json lists exact-string replacements applied to copies of
   repo files (a missing anchor string is a hard error: the hook no longer fits the tree);
 * extra JSON maps given as arguments (instrumented rewrites) are merged last; if a file
   is both patched and instrumented, the instrumenter has already consumed the patched copy.
usage: mkoverlay.py [--out-dir build/rw-<id>] [extra-map.json ...]"""
import json, os, sys
ROOT = os.environ.get('VERIF_ROOT', '/verif')
root = ROOT + '/overlay'
args = sys.argv[1:]
outdir = ROOT + '/build/rw'
if args and args[0] == '--out-dir':
    outdir = args[1]; args = args[2:]
rep = {}
for d, _, fs in os.walk(root):
    for f in fs:
        if f.endswith('.go'):
            src = os.path.join(d, f)
            rel = os.path.relpath(src, root)
            rep['/repo/' + rel] = src
# the shim packages are virtual directories inside the repo module
for d, _, fs in os.walk(ROOT + '/shim'):
    for f in fs:
        if f.endswith('.go'):
            src = os.path.join(d, f)
            rep['/repo/zzverif/' + os.path.relpath(src, ROOT + '/shim')] = src
patches = json.load(open(os.path.join(root, 'PATCHES.json')))
os.makedirs(outdir, exist_ok=True)
for p in patches:
    src = '/repo/' + p['file']
    s = open(src).read()
    for old, new in p['replace']:
        if s.count(old) != 1:
            sys.stderr.write('mkoverlay: anchor %r occurs %d times in %s\n' % (old, s.count(old), src))
            sys.exit(2)
        s = s.replace(old, new)
    dst = os.path.join(outdir, p['file'].replace('/', '__'))
    open(dst, 'w').write(s)
    rep[src] = dst
for extra in args:
    if os.path.exists(extra):
        rep.update(json.load(open(extra)))
json.dump({'Replace': rep}, sys.stdout, indent=1)
