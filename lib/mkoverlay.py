#!/usr/bin/env python3
"""Build the go -overlay JSON.
 * every *.go file under /verif/overlay/<rel> is added at /repo/<rel>;
 * /verif/overlay/PATCHES.json lists exact-string replacements applied to copies of
   repo files (a missing anchor string is a hard error: the hook no longer fits the tree);
 * extra JSON maps given as arguments (instrumented rewrites) are merged last; if a file
   is both patched and instrumented, the instrumenter has already consumed the patched copy.
   a white-box file named zz_verif_cNN.go belongs to property NN: it is only given to the harnesses of
   that property (h/cNN*) and to harnesses that list it in h/<id>/WHITEBOX (one overlay-relative path
   per line), so that a rename inside one subsystem cannot stop unrelated harnesses from building;
usage: mkoverlay.py [--harness <id>] [--out-dir build/rw-<id>] [extra-map.json ...]"""
import json, os, re, sys
ROOT = os.environ.get('VERIF_ROOT', '/verif')
root = ROOT + '/overlay'
args = sys.argv[1:]
outdir = ROOT + '/build/rw'
harness = None
while args and args[0] in ('--out-dir', '--harness'):
    if args[0] == '--out-dir':
        outdir = args[1]
    else:
        harness = args[1]
    args = args[2:]
wanted = set()
if harness:
    wb = os.path.join(ROOT, 'h', harness, 'WHITEBOX')
    if os.path.exists(wb):
        wanted = {l.strip() for l in open(wb) if l.strip() and not l.startswith('#')}


def included(rel):
    m = re.match(r'^zz_verif_c(\d\d)(_\w+)?\.go$', os.path.basename(rel))
    if not m or harness is None:
        return True
    return harness[1:3] == m.group(1) or rel in wanted

rep = {}
for d, _, fs in os.walk(root):
    for f in fs:
        if f.endswith('.go'):
            src = os.path.join(d, f)
            rel = os.path.relpath(src, root)
            if included(rel):
                rep['/repo/' + rel] = src
# the shim packages are virtual directories inside the repo module
for d, _, fs in os.walk(ROOT + '/shim'):
    for f in fs:
        if f.endswith('.go'):
            src = os.path.join(d, f)
            rep['/repo/zzverif/' + os.path.relpath(src, ROOT + '/shim')] = src
patches = json.load(open(os.path.join(root, 'PATCHES.json')))
os.makedirs(outdir, exist_ok=True)
# a changed copy of a repository file supplied through VERIF_EXTRA_OVERLAY (seeded or candidate change checked
# without touching /repo) is the text the hooks are patched into, as if the change were in the working tree
changed = {}
mutant = os.environ.get('VERIF_EXTRA_OVERLAY', '')
if mutant and mutant in args and os.path.exists(mutant):
    changed = json.load(open(mutant))
patched = set()
for p in patches:
    src = '/repo/' + p['file']
    s = open(changed.get(src) or src).read()
    for item in p['replace']:
        # an item is [old, new], or {"any": [[old, new], ...]}: the first alternative whose anchor occurs once
        # (a hook that must go into either of two versions of a function, e.g. before and after a repair)
        alts = item['any'] if isinstance(item, dict) else [item]
        for old, new in alts:
            if s.count(old) == 1:
                s = s.replace(old, new)
                break
        else:
            sys.stderr.write('mkoverlay: anchor %r occurs %d times in %s\n' % (alts[0][0], s.count(alts[0][0]), src))
            sys.exit(2)
    dst = os.path.join(outdir, p['file'].replace('/', '__'))
    open(dst, 'w').write(s)
    rep[src] = dst
    patched.add(src)
for extra in args:
    if os.path.exists(extra):
        m = json.load(open(extra))
        if extra == mutant:
            m = {k: v for k, v in m.items() if k not in patched}
        rep.update(m)
json.dump({'Replace': rep}, sys.stdout, indent=1)
