#!/usr/bin/env python3
"""Build the go -overlay JSON: every file under /verif/overlay/<rel> is added at /repo/<rel>.
Extra mappings (instrumented rewrites) are merged from build/inst/map.json if present."""
import json, os, sys
root = '/verif/overlay'
rep = {}
for d, _, fs in os.walk(root):
    for f in fs:
        if f.endswith('.go'):
            src = os.path.join(d, f)
            rel = os.path.relpath(src, root)
            rep['/repo/' + rel] = src
for extra in sys.argv[1:]:
    if os.path.exists(extra):
        rep.update(json.load(open(extra)))
json.dump({'Replace': rep}, sys.stdout, indent=1)
