package vsched

import (
	"reflect"
)

// Shadow channel state: when an execution is active the scheduler owns the semantics
// of every channel touched by instrumented code; the real channel is only an identity
// (and is probed for closure/values coming from un-instrumented code, e.g. ctx.Done()).
type chanState struct {
	id     uint64
	ref    any // keeps the real channel alive so its address is not reused
	rv     reflect.Value
	cap    int
	buf    []any
	closed bool
	// threads with a pending op on this channel are found by scanning s.threads
	foreign bool // true once a value/closure was observed from the real channel
	waiters []*Thread
}

func (s *Sched) chanOf(ch any) *chanState {
	rv := reflect.ValueOf(ch)
	if rv.IsNil() {
		return nil
	}
	p := rv.Pointer()
	cs := s.chans[p]
	if cs == nil {
		cs = &chanState{id: s.newOID(), ref: ch, rv: rv, cap: rv.Cap()}
		s.chans[p] = cs
	}
	return cs
}

// probeReal looks at the real channel: closed by un-instrumented code (contexts) or a value
// sent by un-instrumented code.
func (cs *chanState) probeReal() {
	if cs.closed {
		return
	}
	if cs.rv.Type().ChanDir()&reflect.RecvDir == 0 {
		return
	}
	if c, isDone := cs.ref.(<-chan struct{}); isDone {
		// fast path for ctx.Done() style channels
		select {
		case _, ok := <-c:
			if ok {
				cs.buf = append(cs.buf, struct{}{})
			} else {
				cs.closed = true
			}
			cs.foreign = true
		default:
		}
		return
	}
	x, ok := cs.rv.TryRecv()
	if ok {
		cs.buf = append(cs.buf, x.Interface())
		cs.foreign = true
		return
	}
	if x.IsValid() {
		// closed
		cs.closed = true
		cs.foreign = true
	}
}

func (s *Sched) pendingSender(cs *chanState, except *Thread) (*Thread, int) {
	for _, t := range cs.waiters {
		if t == except || t.done || t.killed || t.pend == nil || t.pend.completed {
			continue
		}
		for i, c := range t.pend.chans {
			if c == cs && t.pend.dirs[i] {
				return t, i
			}
		}
	}
	return nil, 0
}

func (s *Sched) pendingReceiver(cs *chanState, except *Thread) (*Thread, int) {
	for _, t := range cs.waiters {
		if t == except || t.done || t.killed || t.pend == nil || t.pend.completed {
			continue
		}
		for i, c := range t.pend.chans {
			if c == cs && !t.pend.dirs[i] {
				return t, i
			}
		}
	}
	return nil, 0
}

func (s *Sched) canRecv(cs *chanState, me *Thread) bool {
	if cs == nil {
		return false
	}
	if len(cs.buf) > 0 || cs.closed {
		return true
	}
	cs.probeReal()
	if len(cs.buf) > 0 || cs.closed {
		return true
	}
	t, _ := s.pendingSender(cs, me)
	return t != nil
}

func (s *Sched) canSend(cs *chanState, me *Thread) bool {
	if cs == nil {
		return false
	}
	if cs.closed {
		return true // will panic, like Go
	}
	if len(cs.buf) < cs.cap {
		return true
	}
	if cs.cap > 0 {
		// full buffer: a pending receiver will drain it when it runs; until then we wait
		return false
	}
	t, _ := s.pendingReceiver(cs, me)
	return t != nil
}

// doRecv performs an enabled receive for thread me.
func (s *Sched) doRecv(cs *chanState, me *Thread) (any, bool) {
	if len(cs.buf) > 0 {
		v := cs.buf[0]
		cs.buf = cs.buf[1:]
		// a blocked sender can now move its value into the buffer
		if t, i := s.pendingSender(cs, me); t != nil && len(cs.buf) < cs.cap {
			cs.buf = append(cs.buf, t.pend.svals[i])
			t.pend.completed = true
			t.pend.caseIdx = i
		}
		return v, true
	}
	if cs.closed {
		return nil, false
	}
	if t, i := s.pendingSender(cs, me); t != nil {
		v := t.pend.svals[i]
		t.pend.completed = true
		t.pend.caseIdx = i
		return v, true
	}
	panic("vsched: doRecv on a channel that is not ready")
}

func (s *Sched) doSend(cs *chanState, me *Thread, v any) {
	if cs.closed {
		panic("send on closed channel")
	}
	if t, i := s.pendingReceiver(cs, me); t != nil && len(cs.buf) == 0 {
		t.pend.completed = true
		t.pend.val = v
		t.pend.ok = true
		t.pend.caseIdx = i
		return
	}
	if len(cs.buf) < cs.cap {
		cs.buf = append(cs.buf, v)
		return
	}
	panic("vsched: doSend on a channel that is not ready")
}

// RecvAny is the untyped receive used by the generic wrappers.
func (s *Sched) RecvAny(ch any) (any, bool) {
	if s.tearing {
		return nil, false
	}
	cs := s.chanOf(ch)
	p := &pending{kind: KRecv}
	if cs != nil {
		p.obj = cs.id
		p.chans = []*chanState{cs}
		p.dirs = []bool{false}
		p.svals = []any{nil}
	}
	me := s.cur
	p.ready = func() bool { return s.canRecv(cs, me) }
	s.pointP(p)
	if p.dead {
		return nil, false
	}
	if p.completed {
		return p.val, p.ok
	}
	return s.doRecv(cs, me)
}

func (s *Sched) SendAny(ch any, v any) {
	if s.tearing {
		return
	}
	cs := s.chanOf(ch)
	p := &pending{kind: KSend}
	if cs != nil {
		p.obj = cs.id
		p.chans = []*chanState{cs}
		p.dirs = []bool{true}
		p.svals = []any{v}
	}
	me := s.cur
	p.ready = func() bool { return s.canSend(cs, me) }
	s.pointP(p)
	if p.dead || p.completed {
		return
	}
	s.doSend(cs, me, v)
}

func (s *Sched) CloseAny(ch any) {
	if s.tearing {
		return
	}
	cs := s.chanOf(ch)
	if cs == nil {
		panic("close of nil channel")
	}
	s.Point(KClose, cs.id, nil)
	if s.tearing {
		return
	}
	if cs.closed {
		panic("close of closed channel")
	}
	cs.closed = true
	// pending senders panic in Go; we leave them (they become ready and panic in doSend)
}

// SelCase describes one select case.
type SelCase struct {
	Ch   any
	Send bool
	Val  any
}

type SelResult struct {
	I   int // index of the chosen case, -1 = default
	Val any
	Ok  bool
}

func (s *Sched) SelectAny(hasDefault bool, cases []SelCase) SelResult {
	if s.tearing {
		if hasDefault {
			return SelResult{I: -1}
		}
		// unwind: pretend the first receive case fired with a closed channel
		for i, c := range cases {
			if !c.Send {
				return SelResult{I: i}
			}
		}
		return SelResult{I: 0}
	}
	me := s.cur
	p := &pending{kind: KSelect}
	states := make([]*chanState, len(cases))
	for i, c := range cases {
		var cs *chanState
		if c.Ch != nil {
			cs = s.chanOf(c.Ch)
		}
		states[i] = cs
		if cs != nil {
			p.chans = append(p.chans, cs)
			p.dirs = append(p.dirs, c.Send)
			p.svals = append(p.svals, c.Val)
			if p.obj == 0 {
				p.obj = cs.id
			}
		}
	}
	// map from p.chans index back to case index
	idxMap := make([]int, 0, len(cases))
	for i, cs := range states {
		if cs != nil {
			idxMap = append(idxMap, i)
		}
	}
	readyCases := func() []int {
		var r []int
		for i, c := range cases {
			cs := states[i]
			if cs == nil {
				continue
			}
			if c.Send {
				if s.canSend(cs, me) {
					r = append(r, i)
				}
			} else if s.canRecv(cs, me) {
				r = append(r, i)
			}
		}
		return r
	}
	if !hasDefault {
		p.ready = func() bool { return len(readyCases()) > 0 }
	}
	s.pointP(p)
	if p.dead {
		return s.SelectAny(hasDefault, cases)
	}
	if p.completed {
		return SelResult{I: idxMap[p.caseIdx], Val: p.val, Ok: p.ok}
	}
	rc := readyCases()
	if len(rc) == 0 {
		if hasDefault {
			return SelResult{I: -1}
		}
		panic("vsched: select resumed with no ready case")
	}
	pick := 0
	if len(rc) > 1 {
		pick = s.Choose(len(rc), false)
	}
	i := rc[pick]
	if cases[i].Send {
		s.doSend(states[i], me, cases[i].Val)
		return SelResult{I: i}
	}
	v, ok := s.doRecv(states[i], me)
	return SelResult{I: i, Val: v, Ok: ok}
}

// ---------------------------------------------------------------------------------
// Typed wrappers used by the rewritten code (package-level, pass-through when inactive)

func Go(fn func()) {
	if s := active; s != nil {
		if s.tearing {
			return
		}
		s.Go("", fn)
		return
	}
	go fn()
}

func cast[T any](v any) T {
	if v == nil {
		var z T
		return z
	}
	return v.(T)
}

func Recv[T any](ch <-chan T) T {
	if s := active; s != nil {
		v, _ := s.RecvAny(ch)
		return cast[T](v)
	}
	return <-ch
}

func Recv2[T any](ch <-chan T) (T, bool) {
	if s := active; s != nil {
		v, ok := s.RecvAny(ch)
		return cast[T](v), ok
	}
	v, ok := <-ch
	return v, ok
}

// Send is curried so that the element type is inferred from the channel only.
func Send[T any](ch chan<- T) func(T) {
	return func(v T) {
		if s := active; s != nil {
			s.SendAny(ch, v)
			return
		}
		ch <- v
	}
}

func Close[T any](ch chan<- T) {
	if s := active; s != nil {
		s.CloseAny(ch)
		return
	}
	close(ch)
}

// SendCase / RecvCase build select cases.
func RecvCase[T any](ch <-chan T) SelCase { return SelCase{Ch: chanOrNil(ch)} }

func SendCase[T any](ch chan<- T, v T) SelCase {
	return SelCase{Ch: chanOrNilS(ch), Send: true, Val: v}
}

func chanOrNil[T any](ch <-chan T) any {
	if ch == nil {
		return nil
	}
	return ch
}

func chanOrNilS[T any](ch chan<- T) any {
	if ch == nil {
		return nil
	}
	return ch
}

// Select runs a select statement; in pass-through mode it uses reflect.Select.
func Select(hasDefault bool, cases ...SelCase) SelResult {
	if s := active; s != nil {
		return s.SelectAny(hasDefault, cases)
	}
	rc := make([]reflect.SelectCase, 0, len(cases)+1)
	for _, c := range cases {
		switch {
		case c.Ch == nil:
			rc = append(rc, reflect.SelectCase{Dir: reflect.SelectRecv}) // nil channel: never ready
		case c.Send:
			v := reflect.ValueOf(c.Val)
			cv := reflect.ValueOf(c.Ch)
			if !v.IsValid() {
				v = reflect.Zero(cv.Type().Elem())
			} else if v.Type() != cv.Type().Elem() {
				nv := reflect.New(cv.Type().Elem()).Elem()
				nv.Set(v)
				v = nv
			}
			rc = append(rc, reflect.SelectCase{Dir: reflect.SelectSend, Chan: cv, Send: v})
		default:
			rc = append(rc, reflect.SelectCase{Dir: reflect.SelectRecv, Chan: reflect.ValueOf(c.Ch)})
		}
	}
	if hasDefault {
		rc = append(rc, reflect.SelectCase{Dir: reflect.SelectDefault})
	}
	i, v, ok := reflect.Select(rc)
	if hasDefault && i == len(cases) {
		return SelResult{I: -1}
	}
	r := SelResult{I: i, Ok: ok}
	if v.IsValid() && v.CanInterface() {
		r.Val = v.Interface()
	}
	return r
}

// SelRecv extracts the typed value received by a select case.
func SelRecv[T any](r SelResult, _ <-chan T) T { return cast[T](r.Val) }
