// Package vsched is the cooperative scheduler behind the sync/atomic/time/channel
// shims. Instrumented code runs with exactly one thread holding the token; every
// shim operation that can block or is visible to other threads is a scheduling
// point. When no exploration is active every shim falls back to the real primitive
// (pass-through), so rewritten code behaves like the original.
package vsched

import (
	"fmt"
	"os"
	"reflect"
	"runtime"
	"sort"
	"strings"
	"sync"
	"sync/atomic"
	"time"
)

type Kind uint8

const (
	KStart Kind = iota
	KLock
	KRLock
	KWait      // WaitGroup.Wait, Once.Do
	KAtomic    // atomic load/store/rmw
	KSend      // channel send
	KRecv      // channel receive
	KSelect    // select
	KClose     // channel close
	KSleep     // sleep / timer wait
	KSettle    // harness: wait until every other thread is blocked
	KYield     // explicit yield (spin loops)
	KChoose    // data choice (rand, select case, harness menu)
	KCond      // cond wait
	KHarness   // harness-defined visible step (rpc dispatch etc.)
	KTimerFire // pseudo: a timer fires
)

var kindNames = [...]string{"start", "lock", "rlock", "wait", "atomic", "send", "recv", "select", "close", "sleep", "settle", "yield", "choose", "cond", "harness", "timer"}

func (k Kind) String() string { return kindNames[k] }

type pending struct {
	kind  Kind
	obj   uint64
	ready func() bool // nil: always enabled
	// rendezvous results filled in by the peer
	completed bool
	val       any
	ok        bool
	caseIdx   int
	// for channel ops: which channels this op waits on
	chans []*chanState
	dirs  []bool // true = send
	svals []any
	dead  bool
	site  string
}

type Thread struct {
	ID     int
	Name   string
	Group  int
	wake   chan struct{}
	pend   *pending
	done   bool
	killed bool
	gone   atomic.Bool // goroutine has fully unwound
	s      *Sched
}

type Choice struct {
	N      int  // number of options
	Pick   int  // chosen index
	Kind   Kind // kind of the point at which the choice was made (for the chosen thread)
	Free   bool // true if alternatives cost nothing (data choices marked free)
	RunEn  bool // running thread was among the options (index 0)
	Labels []string
}

type Outcome int

const (
	Done Outcome = iota
	Deadlock
	Horizon
	Panicked
	Diverged
)

func (o Outcome) String() string {
	return [...]string{"done", "deadlock", "horizon", "panic", "diverged"}[o]
}

type Failure struct {
	Key string
	Msg string
}

// Sched is one execution.
type Sched struct {
	mu         sync.Mutex // protects nothing hot; only used for foreign-goroutine safety of Fail
	threads    []*Thread
	cur        *Thread
	nextOID    uint64
	chans      map[uintptr]*chanState
	timers     []*timer
	now        int64 // virtual nanoseconds since epoch
	prefix     []int
	prefixN    []int // expected number of options at each replayed choice (nondeterminism check)
	choices    []Choice
	steps      int
	cfg        *Config
	outcome    Outcome
	panicVal   any
	panicStk   string
	stuck      []string
	finished   chan struct{}
	tearing    bool
	quiet      bool
	consec     int
	fails      []Failure
	trace      []string
	traceOn    bool
	thash      uint64
	nSwitch    int
	Data       any
	endHooks   []func(o Outcome)
	groupsDead map[int]bool
}

// wall-clock accounting of the phases of RunOne (diagnostics)
var StatRun, StatTear, StatHooks time.Duration

var (
	activeMu sync.Mutex
	active   *Sched
)

// Active returns the running execution or nil (pass-through mode).
func Active() *Sched { return active }

// Cur returns the current thread of the active execution.
func (s *Sched) Cur() *Thread { return s.cur }

func (s *Sched) newOID() uint64 { s.nextOID++; return s.nextOID }

// NewOID hands out deterministic object ids (creation order).
func NewOID() uint64 {
	if s := active; s != nil {
		return s.newOID()
	}
	return 0
}

// ---------------------------------------------------------------------------------

type killSignal struct{}

func (s *Sched) checkKilled(t *Thread) {
	if t.killed || s.tearing {
		runtime.Goexit()
	}
}

// Point is the scheduling point before a visible operation of the current thread.
// On return the operation is enabled and must be performed without further yields.
func (s *Sched) Point(kind Kind, obj uint64, ready func() bool) *pending {
	p := &pending{kind: kind, obj: obj, ready: ready}
	s.pointP(p)
	return p
}

func (s *Sched) pointP(p *pending) {
	if s.tearing {
		// the execution is over: this goroutine is being unwound (deferred calls); no-op
		p.completed = true
		p.dead = true
		return
	}
	t := s.cur
	if t == nil {
		panic("vsched: shim called outside a scheduled thread")
	}
	t.pend = p
	if s.traceOn {
		p.site = callerSite()
	}
	for _, cs := range p.chans {
		cs.waiters = append(cs.waiters, t)
	}
	if len(p.chans) > 0 {
		defer func() {
			for _, cs := range p.chans {
				for i, w := range cs.waiters {
					if w == t {
						cs.waiters = append(cs.waiters[:i], cs.waiters[i+1:]...)
						break
					}
				}
			}
		}()
	}
	s.steps++
	if s.cfg.OnPoint != nil {
		s.cfg.OnPoint(s)
	}
	if s.steps > s.cfg.MaxSteps {
		s.endExecution(Horizon)
		s.park(t)
		s.checkKilled(t)
	}
	s.reschedule()
	// we hold the token again, our op is enabled
	t.pend = nil
	s.checkKilled(t)
}

// Dead reports that the execution is over and shim operations must be no-ops.
func (s *Sched) Dead() bool { return s.tearing }

func (s *Sched) isEnabled(t *Thread) bool {
	if t.done || t.killed || t.pend == nil {
		return false
	}
	if t.pend.completed {
		return true
	}
	if t.pend.ready == nil {
		return true
	}
	return t.pend.ready()
}

func (s *Sched) park(t *Thread) {
	<-t.wake
}

// reschedule is called by the token holder (s.cur) with its pending op published (or
// done/blocked). It selects the next thread and transfers the token.
func (s *Sched) reschedule() {
	me := s.cur
	for {
		if s.tearing {
			return
		}
		meEnabled := me != nil && s.isEnabled(me)
		if meEnabled && me.pend.kind != KSettle && s.cfg.Filter != nil && !s.cfg.Filter(me.pend.kind, me.pend.obj) && s.consec <= s.cfg.SpinLimit {
			s.consec++
			s.record(me)
			return
		}
		var normal, settle []*Thread
		add := func(t *Thread) {
			if t.pend.kind == KSettle {
				settle = append(settle, t)
			} else {
				normal = append(normal, t)
			}
		}
		// fairness: a thread that kept the token for SpinLimit consecutive points while others
		// were runnable (a spin / retry loop) goes to the back of the round
		spinning := meEnabled && s.consec > s.cfg.SpinLimit
		if meEnabled && !spinning {
			add(me)
		}
		// canonical order: the running thread first, then round-robin by thread id starting
		// after it (a delayed thread is only considered again when the round comes back to it)
		pivot := 0
		if me != nil {
			pivot = me.ID + 1
		}
		nth := len(s.threads)
		for k := 0; k < nth; k++ {
			t := s.threads[(pivot+k)%nth]
			if t != me && s.isEnabled(t) {
				add(t)
			}
		}
		if spinning {
			add(me)
		}
		var next *Thread
		switch {
		case len(normal) > 0:
			var due []*timer
			if s.cfg.TimersRace {
				due = s.raceableTimers()
			}
			pick := 0
			if n := len(normal) + len(due); n > 1 {
				pick = s.nextChoice(n, normal, meEnabled && me.pend.kind != KSettle)
			}
			if pick >= len(normal) {
				s.fire(due[pick-len(normal)]) // a timer lands first
				continue
			}
			next = normal[pick]
		case len(settle) > 0:
			next = settle[0]
		default:
			if s.fireEarliestTimer() {
				continue
			}
			s.stuckReport()
			s.endExecution(Deadlock)
			if me != nil && !me.done {
				s.park(me)
				s.checkKilled(me)
			}
			return
		}
		s.record(next)
		if next == me {
			if len(normal) > 1 {
				s.consec++
			}
			return
		}
		s.consec = 0
		s.nSwitch++
		s.cur = next
		next.wake <- struct{}{}
		if me != nil && !me.done {
			s.park(me)
		}
		return
	}
}

func (s *Sched) record(t *Thread) {
	if t.pend == nil {
		return
	}
	// FNV-1a style trace hash of (thread, kind, obj)
	h := s.thash
	for _, v := range [...]uint64{uint64(t.ID), uint64(t.pend.kind), t.pend.obj} {
		h ^= v
		h *= 1099511628211
	}
	s.thash = h
	if s.traceOn {
		s.trace = append(s.trace, fmt.Sprintf("T%d(%s) %s #%d  @ %s", t.ID, t.Name, t.pend.kind, t.pend.obj, t.pend.site))
	}
}

// Explore switches the recording of choice points on or off: while off every choice takes
// the default (used for the set-up and oracle phases of a harness, where exploring
// schedules would only multiply the space without reaching new protocol states).
func (s *Sched) Explore(on bool) { s.quiet = !on }

func (s *Sched) nextChoice(n int, en []*Thread, meEnabled bool) int {
	if s.quiet {
		return 0
	}
	i := len(s.choices)
	pick := 0
	if i < len(s.prefix) {
		pick = s.prefix[i]
		if pick >= n || (i < len(s.prefixN) && s.prefixN[i] != n) {
			var names []string
			for _, t := range en {
				names = append(names, fmt.Sprintf("T%d(%s)@%s", t.ID, t.Name, t.pend.site))
			}
			s.diverge(fmt.Sprintf("choice %d: replay wants option %d of %d, execution offers %d: %v", i, pick, s.prefixNAt(i), n, names))
			if pick >= n {
				pick = 0
			}
		}
	}
	c := Choice{N: n, Pick: pick, RunEn: meEnabled}
	if pick < len(en) {
		c.Kind = en[pick].pend.kind
	} else {
		c.Kind = KTimerFire
	}
	s.choices = append(s.choices, c)
	return pick
}

// Choose is a data choice among n alternatives (rand, select case...). free=true means
// alternatives do not count as deviations.
func (s *Sched) Choose(n int, free bool) int {
	if n <= 1 || s.quiet {
		return 0
	}
	i := len(s.choices)
	pick := 0
	if i < len(s.prefix) {
		pick = s.prefix[i]
		if pick >= n || (i < len(s.prefixN) && s.prefixN[i] != n) {
			s.diverge(fmt.Sprintf("data choice %d: replay wants option %d of %d, execution offers %d", i, pick, s.prefixNAt(i), n))
			if pick >= n {
				pick = 0
			}
		}
	}
	s.choices = append(s.choices, Choice{N: n, Pick: pick, Kind: KChoose, Free: free})
	return pick
}

func (s *Sched) prefixNAt(i int) int {
	if i < len(s.prefixN) {
		return s.prefixN[i]
	}
	return -1
}

func (s *Sched) diverge(msg string) {
	if s.outcome != Diverged {
		s.stuck = append(s.stuck, "DIVERGED: "+msg)
	}
	s.outcome = Diverged
}

func (s *Sched) stuckReport() {
	for _, t := range s.threads {
		if !t.done && !t.killed && t.pend != nil {
			s.stuck = append(s.stuck, fmt.Sprintf("T%d(%s) blocked at %s #%d", t.ID, t.Name, t.pend.kind, t.pend.obj))
		}
	}
}

// endExecution stops the world: every parked thread is unwound.
func (s *Sched) endExecution(o Outcome) {
	if s.tearing {
		return
	}
	if s.outcome != Diverged {
		s.outcome = o
	}
	s.tearing = true
	close(s.finished)
}

// Go starts fn as a new scheduled thread.
func (s *Sched) Go(name string, fn func()) *Thread {
	parent := s.cur
	if name == "" && s.traceOn {
		name = callerSite()
	}
	t := &Thread{ID: len(s.threads), Name: name, wake: make(chan struct{}, 1), s: s}
	if parent != nil {
		t.Group = parent.Group
	}
	t.pend = &pending{kind: KStart}
	s.threads = append(s.threads, t)
	go func() {
		<-t.wake
		defer s.threadExit(t)
		if t.killed || s.tearing {
			return
		}
		t.pend = nil
		fn()
	}()
	return t
}

func (s *Sched) threadExit(t *Thread) {
	defer func() { t.gone.Store(true) }()
	if r := recover(); r != nil {
		buf := make([]byte, 16384)
		buf = buf[:runtime.Stack(buf, false)]
		s.panicVal = r
		s.panicStk = string(buf)
		t.done = true
		s.endExecution(Panicked)
		return
	}
	t.done = true
	t.pend = nil
	if s.tearing || t.killed && s.cur != t {
		return
	}
	if t.ID == 0 {
		s.endExecution(Done)
		return
	}
	// hand the token to somebody else
	if s.cur == t {
		s.reschedule()
	}
}

// KillGroup marks every thread of the group as crashed: it never runs again.
// Must be called by a thread outside the group.
func (s *Sched) KillGroup(g int) {
	for _, t := range s.threads {
		if t.Group == g && !t.done && t != s.cur {
			t.killed = true
		}
	}
}

func (s *Sched) SetGroup(g int) { s.cur.Group = g }

// Fail records a property violation observed by the harness.
func (s *Sched) Fail(key, msg string) {
	s.mu.Lock()
	s.fails = append(s.fails, Failure{key, msg})
	s.mu.Unlock()
}

func (s *Sched) OnEnd(f func(o Outcome)) { s.endHooks = append(s.endHooks, f) }

func (s *Sched) Steps() int { return s.steps }

// ---------------------------------------------------------------------------------
// Running one execution

type Config struct {
	MaxSteps   int
	Filter     func(k Kind, obj uint64) bool // may the running thread be preempted at this point?
	TimersRace bool                          // may a pending timer fire while threads are runnable (costs a deviation)
	RaceWindow int64                         // only timers due within this many virtual ns of now may race (0 = any)
	Trace      bool
	MaxTime    int64          // virtual ns horizon for automatic time advance (0 = 1h)
	SpinLimit  int            // consecutive points a thread may keep the token while others are runnable (0 = 60)
	OnPoint    func(s *Sched) // monitor evaluated at every scheduling point (token holder context)
}

type ExecResult struct {
	Choices  []Choice
	Outcome  Outcome
	Fails    []Failure
	Stuck    []string
	Panic    string
	Trace    []string
	Hash     uint64
	Steps    int
	Switches int
	Data     any
	Leaked   int
}

// RunOne executes body as thread 0 under the schedule given by prefix (choice 0 afterwards).
func RunOne(cfg *Config, prefix, prefixN []int, body func(s *Sched)) ExecResult {
	activeMu.Lock()
	defer activeMu.Unlock()
	if cfg.MaxSteps == 0 {
		cfg.MaxSteps = 200000
	}
	if cfg.SpinLimit == 0 {
		cfg.SpinLimit = 60
	}
	if cfg.MaxTime == 0 {
		cfg.MaxTime = int64(3600) * 1e9
	}
	s := &Sched{cfg: cfg, prefix: prefix, prefixN: prefixN, chans: map[uintptr]*chanState{}, finished: make(chan struct{}), traceOn: cfg.Trace,
		now: 1_700_000_000 * 1e9, thash: 14695981039346656037, groupsDead: map[int]bool{}}
	active = s
	main := s.Go("main", func() { body(s) })
	s.cur = main
	t0 := time.Now()
	main.wake <- struct{}{}
	<-s.finished
	t1 := time.Now()
	// teardown: unwind every parked goroutine
	s.tearing = true
	leaked := 0
	for _, t := range s.threads {
		if !t.done {
			leaked++
		}
		if !t.gone.Load() {
			t.killed = true
			select {
			case t.wake <- struct{}{}:
			default:
			}
		}
	}
	// wait until all goroutines have really unwound (deferred calls included)
	waitStart := time.Now()
	for {
		all := true
		for _, t := range s.threads {
			if !t.gone.Load() {
				all = false
				if t.done || t.killed {
					select {
					case t.wake <- struct{}{}:
					default:
					}
				}
				break
			}
		}
		if all {
			break
		}
		runtime.Gosched()
		if time.Since(waitStart) > 200*time.Microsecond {
			time.Sleep(20 * time.Microsecond)
		}
		if time.Since(waitStart) > 30*time.Second {
			panic("vsched: threads of a finished execution did not unwind")
		}
	}
	active = nil
	t2 := time.Now()
	// like defers: last registered first (a harness registers the removal of its scratch
	// directory before it opens the databases whose closing is registered later)
	for i := len(s.endHooks) - 1; i >= 0; i-- {
		s.endHooks[i](s.outcome)
	}
	StatRun += t1.Sub(t0)
	StatTear += t2.Sub(t1)
	StatHooks += time.Since(t2)
	r := ExecResult{Choices: s.choices, Outcome: s.outcome, Fails: s.fails, Stuck: s.stuck, Trace: s.trace, Hash: s.thash,
		Steps: s.steps, Switches: s.nSwitch, Data: s.Data, Leaked: leaked}
	if s.outcome == Panicked {
		r.Panic = fmt.Sprintf("%v\n%s", s.panicVal, s.panicStk)
	}
	return r
}

// ---------------------------------------------------------------------------------
// Harness-side helpers (called from scheduled threads)

// Settle blocks the calling (harness) thread until every other thread is blocked or done.
func (s *Sched) Settle() {
	s.Point(KSettle, 0, nil)
}

// Yield is an explicit scheduling point.
func (s *Sched) Yield() { s.Point(KYield, 0, nil) }

// Step is a harness-defined visible step (used by in-process transports).
func (s *Sched) Step(obj uint64) { s.Point(KHarness, obj, nil) }

// Blocked reports the threads that are currently not enabled (diagnostics after Settle).
func (s *Sched) Blocked() []string {
	var out []string
	for _, t := range s.threads {
		if t != s.cur && !t.done && !t.killed && t.pend != nil && !s.isEnabled(t) {
			out = append(out, fmt.Sprintf("T%d(%s) %s #%d", t.ID, t.Name, t.pend.kind, t.pend.obj))
		}
	}
	sort.Strings(out)
	return out
}

func Debugf(format string, a ...any) {
	if os.Getenv("VSCHED_DEBUG") != "" {
		fmt.Fprintf(os.Stderr, format+"\n", a...)
	}
}

func chanPtr(ch any) uintptr { return reflect.ValueOf(ch).Pointer() }

func describe(ss []string) string { return strings.Join(ss, "; ") }

// callerSite returns the first stack frame outside the shim packages.
func callerSite() string {
	pcs := make([]uintptr, 24)
	n := runtime.Callers(2, pcs)
	frames := runtime.CallersFrames(pcs[:n])
	for {
		f, more := frames.Next()
		if !strings.Contains(f.File, "/zzverif/") && !strings.Contains(f.File, "/verif/shim/") && f.File != "" {
			fn := f.Function
			if i := strings.LastIndex(fn, "/"); i >= 0 {
				fn = fn[i+1:]
			}
			file := f.File
			if i := strings.LastIndex(file, "/"); i >= 0 {
				file = file[i+1:]
			}
			return fmt.Sprintf("%s (%s:%d)", fn, file, f.Line)
		}
		if !more {
			return "?"
		}
	}
}
