package vsched

import (
	"fmt"
	"reflect"
	"sort"
)

// SortedKeys returns the keys of m in a deterministic order (map iteration order is the
// one source of nondeterminism Go gives no handle on). In pass-through mode the native
// (random) order is kept.
func SortedKeys[M ~map[K]V, K comparable, V any](m M) []K {
	keys := make([]K, 0, len(m))
	for k := range m {
		keys = append(keys, k)
	}
	if active == nil {
		return keys
	}
	if len(keys) < 2 {
		return keys
	}
	switch reflect.TypeOf(keys[0]).Kind() {
	case reflect.String:
		sort.Slice(keys, func(i, j int) bool { return reflect.ValueOf(keys[i]).String() < reflect.ValueOf(keys[j]).String() })
	case reflect.Int, reflect.Int8, reflect.Int16, reflect.Int32, reflect.Int64:
		sort.Slice(keys, func(i, j int) bool { return reflect.ValueOf(keys[i]).Int() < reflect.ValueOf(keys[j]).Int() })
	case reflect.Uint, reflect.Uint8, reflect.Uint16, reflect.Uint32, reflect.Uint64:
		sort.Slice(keys, func(i, j int) bool { return reflect.ValueOf(keys[i]).Uint() < reflect.ValueOf(keys[j]).Uint() })
	default:
		sort.Slice(keys, func(i, j int) bool { return fmt.Sprintf("%#v", keys[i]) < fmt.Sprintf("%#v", keys[j]) })
	}
	return keys
}
