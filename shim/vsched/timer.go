package vsched

import (
	"sort"
	"time"
)

// Virtual time. Timers fire when every thread is blocked (time advances to the earliest
// deadline), or — when Config.TimersRace is set — as an explicit scheduler alternative
// while threads are still runnable ("the timer lands first").

type timer struct {
	id       uint64
	deadline int64
	period   int64 // >0: ticker
	ch       any   // chan time.Time (cap 1) or nil
	fn       func()
	sleeper  *pending
	stopped  bool
	seq      uint64
}

type TimerHandle struct{ t *timer }

func (s *Sched) Now() time.Time { return time.Unix(0, s.now) }

func (s *Sched) NowNanos() int64 { return s.now }

func (s *Sched) addTimer(t *timer) {
	t.id = s.newOID()
	t.seq = t.id
	s.timers = append(s.timers, t)
}

// NewChanTimer registers a timer that delivers the fire time on ch (cap 1).
func (s *Sched) NewChanTimer(d time.Duration, period time.Duration, ch chan time.Time) TimerHandle {
	t := &timer{deadline: s.now + int64(d), period: int64(period), ch: ch}
	s.addTimer(t)
	return TimerHandle{t}
}

func (s *Sched) NewFuncTimer(d time.Duration, fn func()) TimerHandle {
	t := &timer{deadline: s.now + int64(d), fn: fn}
	s.addTimer(t)
	return TimerHandle{t}
}

// Stop reports whether the timer was still pending.
func (h TimerHandle) Stop() bool {
	if h.t == nil {
		return false
	}
	was := !h.t.stopped
	h.t.stopped = true
	h.t.drain()
	return was
}

// drain discards a fired-but-unreceived value: since Go 1.23 no stale value is observable
// on a timer channel after Stop or Reset has returned.
func (t *timer) drain() {
	if t.ch == nil {
		return
	}
	if s := active; s != nil {
		if cs := s.chanOf(t.ch); cs != nil {
			cs.buf = nil
		}
	}
}

func (s *Sched) Reset(h TimerHandle, d time.Duration) bool {
	was := !h.t.stopped
	h.t.stopped = false
	h.t.drain()
	h.t.deadline = s.now + int64(d)
	found := false
	for _, x := range s.timers {
		if x == h.t {
			found = true
		}
	}
	if !found {
		s.timers = append(s.timers, h.t)
	}
	return was
}

// Sleep blocks the current thread for d of virtual time.
func (s *Sched) Sleep(d time.Duration) {
	if s.tearing {
		return
	}
	if d <= 0 {
		s.Yield()
		return
	}
	fired := false
	p := &pending{kind: KSleep}
	p.ready = func() bool { return fired }
	t := &timer{deadline: s.now + int64(d), fn: nil, sleeper: p}
	t.fn = func() { fired = true }
	s.addTimer(t)
	p.obj = t.id
	s.pointP(p)
}

func (s *Sched) liveTimers() []*timer {
	var out []*timer
	keep := s.timers[:0]
	for _, t := range s.timers {
		if !t.stopped {
			out = append(out, t)
			keep = append(keep, t)
		}
	}
	s.timers = keep
	sort.SliceStable(out, func(i, j int) bool {
		if out[i].deadline != out[j].deadline {
			return out[i].deadline < out[j].deadline
		}
		return out[i].seq < out[j].seq
	})
	return out
}

func (s *Sched) raceableTimers() []*timer {
	lt := s.liveTimers()
	if s.cfg.RaceWindow > 0 {
		var out []*timer
		for _, t := range lt {
			if t.deadline-s.now <= s.cfg.RaceWindow {
				out = append(out, t)
			}
		}
		return out
	}
	return lt
}

func (s *Sched) fireEarliestTimer() bool {
	lt := s.liveTimers()
	if len(lt) == 0 {
		return false
	}
	if lt[0].deadline-s.startTime() > s.cfg.MaxTime {
		return false
	}
	s.fire(lt[0])
	return true
}

func (s *Sched) startTime() int64 { return 1_700_000_000 * 1e9 }

func (s *Sched) fire(t *timer) {
	if t.deadline > s.now {
		s.now = t.deadline
	}
	s.thash = (s.thash ^ (t.id + 0x9e3779b97f4a7c15)) * 1099511628211
	if s.traceOn {
		s.trace = append(s.trace, "timer #"+itoa(t.id)+" fires")
	}
	if t.period > 0 {
		t.deadline = s.now + t.period
	} else {
		t.stopped = true
	}
	switch {
	case t.sleeper != nil:
		t.fn()
	case t.fn != nil:
		fn := t.fn
		s.Go("timerfunc", fn)
	case t.ch != nil:
		cs := s.chanOf(t.ch)
		// non-blocking send, like the runtime's timer channel
		if r, i := s.pendingReceiver(cs, nil); r != nil && len(cs.buf) == 0 {
			r.pend.completed = true
			r.pend.val = time.Unix(0, s.now)
			r.pend.ok = true
			r.pend.caseIdx = i
		} else if len(cs.buf) < cs.cap {
			cs.buf = append(cs.buf, time.Unix(0, s.now))
		}
	}
}

// PendingTimers returns the number of live timers (diagnostics).
func (s *Sched) PendingTimers() int { return len(s.liveTimers()) }

func itoa(v uint64) string {
	if v == 0 {
		return "0"
	}
	var b [20]byte
	i := len(b)
	for v > 0 {
		i--
		b[i] = byte('0' + v%10)
		v /= 10
	}
	return string(b[i:])
}
