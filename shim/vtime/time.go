// Package vtime mirrors package time on the scheduler's virtual clock.
package vtime

import (
	"time"

	"github.com/oxia-db/oxia/zzverif/vsched"
)

type (
	Duration   = time.Duration
	Time       = time.Time
	Month      = time.Month
	Weekday    = time.Weekday
	Location   = time.Location
	ParseError = time.ParseError
)

const (
	Nanosecond  = time.Nanosecond
	Microsecond = time.Microsecond
	Millisecond = time.Millisecond
	Second      = time.Second
	Minute      = time.Minute
	Hour        = time.Hour

	Layout      = time.Layout
	ANSIC       = time.ANSIC
	UnixDate    = time.UnixDate
	RFC822      = time.RFC822
	RFC1123     = time.RFC1123
	RFC3339     = time.RFC3339
	RFC3339Nano = time.RFC3339Nano
	Kitchen     = time.Kitchen
	Stamp       = time.Stamp
	StampMilli  = time.StampMilli
	StampMicro  = time.StampMicro
	StampNano   = time.StampNano
	DateTime    = time.DateTime
	DateOnly    = time.DateOnly
	TimeOnly    = time.TimeOnly

	January = time.January
)

var (
	UTC   = time.UTC
	Local = time.Local
)

func Unix(sec, nsec int64) Time { return time.Unix(sec, nsec) }
func UnixMilli(ms int64) Time   { return time.UnixMilli(ms) }
func UnixMicro(us int64) Time   { return time.UnixMicro(us) }
func Date(y int, m Month, d, h, mi, s, ns int, l *Location) Time {
	return time.Date(y, m, d, h, mi, s, ns, l)
}
func Parse(layout, v string) (Time, error)        { return time.Parse(layout, v) }
func ParseDuration(s string) (Duration, error)    { return time.ParseDuration(s) }
func FixedZone(name string, off int) *Location    { return time.FixedZone(name, off) }
func LoadLocation(name string) (*Location, error) { return time.LoadLocation(name) }

func Now() Time {
	if s := vsched.Active(); s != nil {
		return s.Now()
	}
	return time.Now()
}

func Since(t Time) Duration { return Now().Sub(t) }
func Until(t Time) Duration { return t.Sub(Now()) }

func Sleep(d Duration) {
	if s := vsched.Active(); s != nil {
		s.Sleep(d)
		return
	}
	time.Sleep(d)
}

type Timer struct {
	C    <-chan Time
	c    chan Time
	real *time.Timer
	h    vsched.TimerHandle
	s    *vsched.Sched
}

func NewTimer(d Duration) *Timer {
	if s := vsched.Active(); s != nil && !s.Dead() {
		c := make(chan Time, 1)
		t := &Timer{C: c, c: c, s: s}
		t.h = s.NewChanTimer(d, 0, c)
		return t
	}
	rt := time.NewTimer(d)
	return &Timer{C: rt.C, real: rt}
}

func (t *Timer) Stop() bool {
	if t.real != nil {
		return t.real.Stop()
	}
	return t.h.Stop()
}

func (t *Timer) Reset(d Duration) bool {
	if t.real != nil {
		return t.real.Reset(d)
	}
	return t.s.Reset(t.h, d)
}

func After(d Duration) <-chan Time { return NewTimer(d).C }

func AfterFunc(d Duration, f func()) *Timer {
	if s := vsched.Active(); s != nil && !s.Dead() {
		t := &Timer{s: s}
		t.h = s.NewFuncTimer(d, f)
		return t
	}
	return &Timer{real: time.AfterFunc(d, f)}
}

type Ticker struct {
	C    <-chan Time
	real *time.Ticker
	h    vsched.TimerHandle
	s    *vsched.Sched
	d    Duration
}

func NewTicker(d Duration) *Ticker {
	if d <= 0 {
		panic("non-positive interval for NewTicker")
	}
	if s := vsched.Active(); s != nil && !s.Dead() {
		c := make(chan Time, 1)
		t := &Ticker{C: c, s: s, d: d}
		t.h = s.NewChanTimer(d, d, c)
		return t
	}
	rt := time.NewTicker(d)
	return &Ticker{C: rt.C, real: rt}
}

func (t *Ticker) Stop() {
	if t.real != nil {
		t.real.Stop()
		return
	}
	t.h.Stop()
}

func (t *Ticker) Reset(d Duration) {
	if t.real != nil {
		t.real.Reset(d)
		return
	}
	t.s.Reset(t.h, d)
}

func Tick(d Duration) <-chan Time { return NewTicker(d).C }
