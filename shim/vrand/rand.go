// Package vrand mirrors the few math/rand functions oxia uses: under the scheduler a
// random draw is an explorable data choice.
package vrand

import (
	"math/rand"

	"github.com/oxia-db/oxia/zzverif/vsched"
)

type (
	Rand   = rand.Rand
	Source = rand.Source
)

func New(src Source) *Rand        { return rand.New(src) }
func NewSource(seed int64) Source { return rand.NewSource(seed) }

func Intn(n int) int {
	if s := vsched.Active(); s != nil && !s.Dead() {
		if n <= 8 {
			return s.Choose(n, false)
		}
		return 0
	}
	return rand.Intn(n)
}

func Int63n(n int64) int64 {
	if s := vsched.Active(); s != nil && !s.Dead() {
		return 0
	}
	return rand.Int63n(n)
}

func Int31n(n int32) int32 {
	if s := vsched.Active(); s != nil && !s.Dead() {
		return 0
	}
	return rand.Int31n(n)
}

func Int() int {
	if s := vsched.Active(); s != nil && !s.Dead() {
		return 0
	}
	return rand.Int()
}

func Int63() int64 {
	if s := vsched.Active(); s != nil && !s.Dead() {
		return 0
	}
	return rand.Int63()
}

func Float64() float64 {
	if s := vsched.Active(); s != nil && !s.Dead() {
		return 0
	}
	return rand.Float64()
}

func Shuffle(n int, swap func(i, j int)) {
	if s := vsched.Active(); s != nil && !s.Dead() {
		return
	}
	rand.Shuffle(n, swap)
}

func Perm(n int) []int {
	if s := vsched.Active(); s != nil && !s.Dead() {
		p := make([]int, n)
		for i := range p {
			p[i] = i
		}
		return p
	}
	return rand.Perm(n)
}
