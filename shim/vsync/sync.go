// Package vsync mirrors the parts of package sync that oxia uses. With no active
// execution each type behaves exactly like the real one.
package vsync

import (
	"sync"

	"github.com/oxia-db/oxia/zzverif/vsched"
)

type (
	Locker = sync.Locker
	Map    = sync.Map
	Pool   = sync.Pool
)

type Mutex struct {
	real sync.Mutex
	held bool
	id   uint64
}

func (m *Mutex) oid(s *vsched.Sched) uint64 {
	if m.id == 0 {
		m.id = vsched.NewOID()
	}
	return m.id
}

func (m *Mutex) Lock() {
	s := vsched.Active()
	if s == nil {
		m.real.Lock()
		return
	}
	if s.Dead() {
		return
	}
	s.Point(vsched.KLock, m.oid(s), func() bool { return !m.held })
	if s.Dead() {
		return
	}
	m.held = true
}

func (m *Mutex) TryLock() bool {
	s := vsched.Active()
	if s == nil {
		return m.real.TryLock()
	}
	if s.Dead() {
		return true
	}
	s.Point(vsched.KLock, m.oid(s), nil)
	if m.held {
		return false
	}
	m.held = true
	return true
}

func (m *Mutex) Unlock() {
	s := vsched.Active()
	if s == nil {
		m.real.Unlock()
		return
	}
	if s.Dead() {
		return
	}
	if !m.held {
		panic("sync: unlock of unlocked mutex")
	}
	m.held = false
}

type RWMutex struct {
	real    sync.RWMutex
	writer  bool
	readers int
	id      uint64
}

func (m *RWMutex) oid() uint64 {
	if m.id == 0 {
		m.id = vsched.NewOID()
	}
	return m.id
}

func (m *RWMutex) Lock() {
	s := vsched.Active()
	if s == nil {
		m.real.Lock()
		return
	}
	if s.Dead() {
		return
	}
	s.Point(vsched.KLock, m.oid(), func() bool { return !m.writer && m.readers == 0 })
	if s.Dead() {
		return
	}
	m.writer = true
}

func (m *RWMutex) TryLock() bool {
	s := vsched.Active()
	if s == nil {
		return m.real.TryLock()
	}
	if s.Dead() {
		return true
	}
	s.Point(vsched.KLock, m.oid(), nil)
	if m.writer || m.readers > 0 {
		return false
	}
	m.writer = true
	return true
}

func (m *RWMutex) Unlock() {
	s := vsched.Active()
	if s == nil {
		m.real.Unlock()
		return
	}
	if s.Dead() {
		return
	}
	if !m.writer {
		panic("sync: Unlock of unlocked RWMutex")
	}
	m.writer = false
}

func (m *RWMutex) RLock() {
	s := vsched.Active()
	if s == nil {
		m.real.RLock()
		return
	}
	if s.Dead() {
		return
	}
	s.Point(vsched.KRLock, m.oid(), func() bool { return !m.writer })
	if s.Dead() {
		return
	}
	m.readers++
}

func (m *RWMutex) TryRLock() bool {
	s := vsched.Active()
	if s == nil {
		return m.real.TryRLock()
	}
	if s.Dead() {
		return true
	}
	s.Point(vsched.KRLock, m.oid(), nil)
	if m.writer {
		return false
	}
	m.readers++
	return true
}

func (m *RWMutex) RUnlock() {
	s := vsched.Active()
	if s == nil {
		m.real.RUnlock()
		return
	}
	if s.Dead() {
		return
	}
	if m.readers <= 0 {
		panic("sync: RUnlock of unlocked RWMutex")
	}
	m.readers--
}

func (m *RWMutex) RLocker() Locker { return (*rlocker)(m) }

type rlocker RWMutex

func (r *rlocker) Lock()   { (*RWMutex)(r).RLock() }
func (r *rlocker) Unlock() { (*RWMutex)(r).RUnlock() }

type WaitGroup struct {
	real sync.WaitGroup
	n    int
	id   uint64
}

func (w *WaitGroup) oid() uint64 {
	if w.id == 0 {
		w.id = vsched.NewOID()
	}
	return w.id
}

func (w *WaitGroup) Add(delta int) {
	s := vsched.Active()
	if s == nil {
		w.real.Add(delta)
		return
	}
	if s.Dead() {
		return
	}
	w.n += delta
	if w.n < 0 {
		panic("sync: negative WaitGroup counter")
	}
}

func (w *WaitGroup) Done() { w.Add(-1) }

func (w *WaitGroup) Wait() {
	s := vsched.Active()
	if s == nil {
		w.real.Wait()
		return
	}
	if s.Dead() {
		return
	}
	s.Point(vsched.KWait, w.oid(), func() bool { return w.n == 0 })
}

func (w *WaitGroup) Go(f func()) {
	w.Add(1)
	vsched.Go(func() {
		defer w.Done()
		f()
	})
}

type Once struct {
	real    sync.Once
	done    bool
	running bool
	id      uint64
}

func (o *Once) Do(f func()) {
	s := vsched.Active()
	if s == nil {
		o.real.Do(f)
		return
	}
	if s.Dead() {
		return
	}
	if o.id == 0 {
		o.id = vsched.NewOID()
	}
	s.Point(vsched.KWait, o.id, func() bool { return !o.running })
	if s.Dead() || o.done {
		return
	}
	o.running = true
	defer func() {
		o.done = true
		o.running = false
	}()
	f()
}

// Cond mirrors sync.Cond.
type Cond struct {
	L       Locker
	real    *sync.Cond
	waiters []*condWaiter
	id      uint64
}

type condWaiter struct{ signalled bool }

func NewCond(l Locker) *Cond { return &Cond{L: l, real: sync.NewCond(l)} }

func (c *Cond) Wait() {
	s := vsched.Active()
	if s == nil {
		c.real.Wait()
		return
	}
	if s.Dead() {
		return
	}
	if c.id == 0 {
		c.id = vsched.NewOID()
	}
	w := &condWaiter{}
	c.waiters = append(c.waiters, w)
	c.L.Unlock()
	s.Point(vsched.KCond, c.id, func() bool { return w.signalled })
	c.L.Lock()
}

func (c *Cond) Signal() {
	s := vsched.Active()
	if s == nil {
		c.real.Signal()
		return
	}
	if s.Dead() {
		return
	}
	if len(c.waiters) > 0 {
		c.waiters[0].signalled = true
		c.waiters = c.waiters[1:]
	}
}

func (c *Cond) Broadcast() {
	s := vsched.Active()
	if s == nil {
		c.real.Broadcast()
		return
	}
	if s.Dead() {
		return
	}
	for _, w := range c.waiters {
		w.signalled = true
	}
	c.waiters = nil
}

func OnceFunc(f func()) func() {
	var o Once
	return func() { o.Do(f) }
}

func OnceValue[T any](f func() T) func() T {
	var o Once
	var v T
	return func() T {
		o.Do(func() { v = f() })
		return v
	}
}
