// Package vatomic mirrors sync/atomic: every operation is a scheduling point.
package vatomic

import (
	"sync/atomic"

	"github.com/oxia-db/oxia/zzverif/vsched"
)

func pt(id *uint64) {
	s := vsched.Active()
	if s == nil || s.Dead() {
		return
	}
	if *id == 0 {
		*id = vsched.NewOID()
	}
	s.Point(vsched.KAtomic, *id, nil)
}

type Int64 struct {
	v  atomic.Int64
	id uint64
}

func (x *Int64) Load() int64                    { pt(&x.id); return x.v.Load() }
func (x *Int64) Store(v int64)                  { pt(&x.id); x.v.Store(v) }
func (x *Int64) Swap(v int64) int64             { pt(&x.id); return x.v.Swap(v) }
func (x *Int64) Add(d int64) int64              { pt(&x.id); return x.v.Add(d) }
func (x *Int64) And(m int64) int64              { pt(&x.id); return x.v.And(m) }
func (x *Int64) Or(m int64) int64               { pt(&x.id); return x.v.Or(m) }
func (x *Int64) CompareAndSwap(o, n int64) bool { pt(&x.id); return x.v.CompareAndSwap(o, n) }

type Int32 struct {
	v  atomic.Int32
	id uint64
}

func (x *Int32) Load() int32                    { pt(&x.id); return x.v.Load() }
func (x *Int32) Store(v int32)                  { pt(&x.id); x.v.Store(v) }
func (x *Int32) Swap(v int32) int32             { pt(&x.id); return x.v.Swap(v) }
func (x *Int32) Add(d int32) int32              { pt(&x.id); return x.v.Add(d) }
func (x *Int32) CompareAndSwap(o, n int32) bool { pt(&x.id); return x.v.CompareAndSwap(o, n) }

type Uint64 struct {
	v  atomic.Uint64
	id uint64
}

func (x *Uint64) Load() uint64                    { pt(&x.id); return x.v.Load() }
func (x *Uint64) Store(v uint64)                  { pt(&x.id); x.v.Store(v) }
func (x *Uint64) Swap(v uint64) uint64            { pt(&x.id); return x.v.Swap(v) }
func (x *Uint64) Add(d uint64) uint64             { pt(&x.id); return x.v.Add(d) }
func (x *Uint64) CompareAndSwap(o, n uint64) bool { pt(&x.id); return x.v.CompareAndSwap(o, n) }

type Uint32 struct {
	v  atomic.Uint32
	id uint64
}

func (x *Uint32) Load() uint32                    { pt(&x.id); return x.v.Load() }
func (x *Uint32) Store(v uint32)                  { pt(&x.id); x.v.Store(v) }
func (x *Uint32) Swap(v uint32) uint32            { pt(&x.id); return x.v.Swap(v) }
func (x *Uint32) Add(d uint32) uint32             { pt(&x.id); return x.v.Add(d) }
func (x *Uint32) CompareAndSwap(o, n uint32) bool { pt(&x.id); return x.v.CompareAndSwap(o, n) }

type Bool struct {
	v  atomic.Bool
	id uint64
}

func (x *Bool) Load() bool                    { pt(&x.id); return x.v.Load() }
func (x *Bool) Store(v bool)                  { pt(&x.id); x.v.Store(v) }
func (x *Bool) Swap(v bool) bool              { pt(&x.id); return x.v.Swap(v) }
func (x *Bool) CompareAndSwap(o, n bool) bool { pt(&x.id); return x.v.CompareAndSwap(o, n) }

type Pointer[T any] struct {
	v  atomic.Pointer[T]
	id uint64
}

func (x *Pointer[T]) Load() *T                    { pt(&x.id); return x.v.Load() }
func (x *Pointer[T]) Store(v *T)                  { pt(&x.id); x.v.Store(v) }
func (x *Pointer[T]) Swap(v *T) *T                { pt(&x.id); return x.v.Swap(v) }
func (x *Pointer[T]) CompareAndSwap(o, n *T) bool { pt(&x.id); return x.v.CompareAndSwap(o, n) }

type Value struct {
	v  atomic.Value
	id uint64
}

func (x *Value) Load() any                    { pt(&x.id); return x.v.Load() }
func (x *Value) Store(v any)                  { pt(&x.id); x.v.Store(v) }
func (x *Value) Swap(v any) any               { pt(&x.id); return x.v.Swap(v) }
func (x *Value) CompareAndSwap(o, n any) bool { pt(&x.id); return x.v.CompareAndSwap(o, n) }

var fnID uint64

func fpt() {
	s := vsched.Active()
	if s == nil || s.Dead() {
		return
	}
	s.Point(vsched.KAtomic, 1<<62, nil)
}

func AddInt64(p *int64, d int64) int64     { fpt(); return atomic.AddInt64(p, d) }
func AddInt32(p *int32, d int32) int32     { fpt(); return atomic.AddInt32(p, d) }
func AddUint64(p *uint64, d uint64) uint64 { fpt(); return atomic.AddUint64(p, d) }
func AddUint32(p *uint32, d uint32) uint32 { fpt(); return atomic.AddUint32(p, d) }
func LoadInt64(p *int64) int64             { fpt(); return atomic.LoadInt64(p) }
func LoadInt32(p *int32) int32             { fpt(); return atomic.LoadInt32(p) }
func LoadUint64(p *uint64) uint64          { fpt(); return atomic.LoadUint64(p) }
func LoadUint32(p *uint32) uint32          { fpt(); return atomic.LoadUint32(p) }
func StoreInt64(p *int64, v int64)         { fpt(); atomic.StoreInt64(p, v) }
func StoreInt32(p *int32, v int32)         { fpt(); atomic.StoreInt32(p, v) }
func StoreUint64(p *uint64, v uint64)      { fpt(); atomic.StoreUint64(p, v) }
func StoreUint32(p *uint32, v uint32)      { fpt(); atomic.StoreUint32(p, v) }
func CompareAndSwapInt64(p *int64, o, n int64) bool {
	fpt()
	return atomic.CompareAndSwapInt64(p, o, n)
}
func CompareAndSwapInt32(p *int32, o, n int32) bool {
	fpt()
	return atomic.CompareAndSwapInt32(p, o, n)
}
func CompareAndSwapUint64(p *uint64, o, n uint64) bool {
	fpt()
	return atomic.CompareAndSwapUint64(p, o, n)
}
func CompareAndSwapUint32(p *uint32, o, n uint32) bool {
	fpt()
	return atomic.CompareAndSwapUint32(p, o, n)
}

// Peek reads the value without a scheduling point (monitors only).
func (x *Int64) Peek() int64   { return x.v.Load() }
func (x *Int32) Peek() int32   { return x.v.Load() }
func (x *Uint64) Peek() uint64 { return x.v.Load() }
func (x *Uint32) Peek() uint32 { return x.v.Load() }
func (x *Bool) Peek() bool     { return x.v.Load() }
