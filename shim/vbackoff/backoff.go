// Package vbackoff re-exports github.com/cenkalti/backoff/v4 and re-implements only the
// retry loops so that their sleeps happen on the scheduler's virtual clock and their
// waits are visible to the scheduler. Jitter is removed (RandomizationFactor 0) so that
// timer deadlines are deterministic.
package vbackoff

import (
	"errors"
	"time"

	real "github.com/cenkalti/backoff/v4"

	"github.com/oxia-db/oxia/zzverif/vsched"
	"github.com/oxia-db/oxia/zzverif/vtime"
)

type (
	BackOff                = real.BackOff
	BackOffContext         = real.BackOffContext
	ExponentialBackOff     = real.ExponentialBackOff
	ExponentialBackOffOpts = real.ExponentialBackOffOpts
	ConstantBackOff        = real.ConstantBackOff
	ZeroBackOff            = real.ZeroBackOff
	StopBackOff            = real.StopBackOff
	PermanentError         = real.PermanentError
	Operation              = real.Operation
	Notify                 = real.Notify
	Clock                  = real.Clock
	Ticker                 = real.Ticker
)

const (
	Stop                       = real.Stop
	DefaultInitialInterval     = real.DefaultInitialInterval
	DefaultRandomizationFactor = 0 // deterministic under the scheduler
	DefaultMultiplier          = real.DefaultMultiplier
	DefaultMaxInterval         = real.DefaultMaxInterval
	DefaultMaxElapsedTime      = real.DefaultMaxElapsedTime
)

type vclock struct{}

func (vclock) Now() time.Time { return vtime.Now() }

var SystemClock Clock = vclock{}

func Permanent(err error) error { return real.Permanent(err) }

func NewExponentialBackOff(opts ...ExponentialBackOffOpts) *ExponentialBackOff {
	b := real.NewExponentialBackOff(opts...)
	b.RandomizationFactor = 0
	b.Clock = SystemClock
	b.Reset()
	return b
}

func NewConstantBackOff(d time.Duration) *ConstantBackOff { return real.NewConstantBackOff(d) }

var (
	WithContext             = real.WithContext
	WithMaxRetries          = real.WithMaxRetries
	WithInitialInterval     = real.WithInitialInterval
	WithMaxInterval         = real.WithMaxInterval
	WithMaxElapsedTime      = real.WithMaxElapsedTime
	WithMultiplier          = real.WithMultiplier
	WithRandomizationFactor = real.WithRandomizationFactor
)

func Retry(o Operation, b BackOff) error { return RetryNotify(o, b, nil) }

func RetryNotify(operation Operation, b BackOff, notify Notify) error {
	s := vsched.Active()
	if s == nil {
		return real.RetryNotify(operation, b, notify)
	}
	var ctxDone <-chan struct{}
	var ctxErr func() error
	if cb, ok := b.(BackOffContext); ok {
		ctxDone = cb.Context().Done()
		ctxErr = cb.Context().Err
	} else {
		ctxErr = func() error { return nil }
	}
	b.Reset()
	for {
		err := operation()
		if err == nil {
			return nil
		}
		var permanent *PermanentError
		if errors.As(err, &permanent) {
			return permanent.Err
		}
		next := b.NextBackOff()
		if next == Stop {
			if cerr := ctxErr(); cerr != nil {
				return cerr
			}
			return err
		}
		if notify != nil {
			notify(err, next)
		}
		if s.Dead() {
			return err
		}
		t := vtime.NewTimer(next)
		r := vsched.Select(false, vsched.RecvCase(ctxDone), vsched.RecvCase(t.C))
		t.Stop()
		if r.I == 0 {
			return ctxErr()
		}
	}
}
